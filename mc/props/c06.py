"""C06 - container laws: quoting or list-indenting a document nests its blocks."""
from __future__ import annotations

import itertools
import re

from .. import configs as C
from .. import spaces as S
from ..core import CRASH

ID = "C06"
LEVEL = "exploration"
RULE = ("base documents = all newline-terminated TAB/CR/NUL-free line-shape documents up to K lines; every wrapper "
        "word over {Q, 7 list markers} up to the stated depth is applied inductively (depth-first, each step checked): "
        "parse(w(X)) must equal one container around lift(parse(X)) with equal maps and env; Q strictly, list form "
        "modulo hidden / leading blanks of inline content lines / blank runs in code spans. Non-trivial = base with at "
        "least one block; distinct = distinct (wrapper word, base block-type sequence).")

HR = re.compile(r"^ {0,3}([-*_])([ \t]*\1){2,}[ \t]*$")
MARKERS = ["- ", "*  ", "+   ", "-    ", "1. ", "7) ", "12.  "]
WRAPPERS = ["Q"] + MARKERS
PREF = ["", "> ", "- ", "  ", "    ", "1. "]
LEAF = ["", "a", "# a", "---", "===", "- a", "-", "> a", ">", "```", "[a]: /u", "<div>", "`a", "b`", " ",
        "[b]: /v 't", "u'", "<!-- x", "y -->", "<pre>"]
PREF3 = ["", "> ", "- ", "  "]
LEAF3 = ["", "a", "# a", "---", "- a", "> a", "```", "[a]: /u", "`a", "b`", "[b]: /v 't", "u'", "<!-- x", "y -->"]

CM = C.cfg("commonmark")
CMT = C.cfg("commonmark", enable=["table"])


def lines_of(pref, leaf):
    return sorted({p + l for p in pref for l in leaf})


def wrap(X, w):
    ls = X.split("\n")[:-1]
    if w == "Q":
        return "".join("> " + l + "\n" for l in ls)
    W = len(w)
    return "".join((w if i == 0 else " " * W) + l + "\n" for i, l in enumerate(ls))


def _norm_children(children, lazy_titles=True):
    out = []
    for c in children or []:
        d = c.as_dict(children=False)
        if c.type == "code_inline":
            d["content"] = re.sub(r" +", " ", d["content"]).strip(" ")
        if lazy_titles and c.type == "html_inline":
            # raw HTML that spans a lazy continuation line keeps that line's leading spaces (the property's allowance)
            d["content"] = "\n".join(l.lstrip(" ") if i else l for i, l in enumerate(d["content"].split("\n")))
        if lazy_titles and c.type in ("link_open", "image") and d.get("attrs"):
            # a title that comes from a definition continued on a lazy line (see env_loose)
            d["attrs"] = [[k, "\n".join(l.lstrip(" ") for l in v.split("\n")) if k == "title" and isinstance(v, str) else v]
                          for k, v in d["attrs"]]
        d["children"] = _norm_children(c.children, lazy_titles) if c.children else c.children
        out.append(d)
    return out


def sig_loose(tokens, dl, lazy_titles=True):
    out = []
    for t in tokens:
        d = t.as_dict(children=False)
        d["level"] -= dl
        d.pop("hidden")
        if t.type == "inline":
            d["content"] = "\n".join(l.lstrip(" ") for l in d["content"].split("\n"))
            d["children"] = _norm_children(t.children, lazy_titles)
        out.append(d)
    return out


def sig_strict(tokens, dl):
    out = []
    for t in tokens:
        d = t.as_dict()
        d["level"] -= dl
        out.append(d)
    return out


def env_loose(env):
    """reference definitions modulo leading blanks of the title's continuation lines (a title continued on a lazy
    line keeps that line's list indentation, exactly like paragraph text does)"""
    out = {}
    for k, v in env.items():
        if k == "references":
            out[k] = {lab: {**d, "title": "\n".join(l.lstrip(" ") for l in d.get("title", "").split("\n"))} for lab, d in v.items()}
        elif k == "duplicate_refs":
            out[k] = [{**d, "title": "\n".join(l.lstrip(" ") for l in d.get("title", "").split("\n"))} for d in v]
        else:
            out[k] = v
    return out


def law(md, X, BX, envX, w, allow_table_list, acc):
    """returns (error or None, parse of w(X), env) ; BX = parse(X)"""
    Y = wrap(X, w)
    e1 = {}
    T = acc.call(md.parse, Y, e1)
    if T is CRASH:
        return None, None, None, Y
    if w == "Q":
        ok = (len(T) >= 2 and T[0].type == "blockquote_open" and T[-1].type == "blockquote_close"
              and T[-1].level == 0 and T[0].map and T[0].map[0] == 0 and sum(1 for t in T if t.level == 0) == 2)
        if not ok:
            return "Q(X) is not exactly one block quote", T, e1, Y
        if sig_strict(T[1:-1], 1) != sig_strict(BX, 0):
            if sig_loose(T[1:-1], 1) != sig_loose(BX, 0):
                return "Q(X): quote contents differ from the blocks of X", T, e1, Y
            return "Q(X): quote contents differ from the blocks of X (only in hidden/leading blanks)", T, e1, Y
        if e1 != envX:
            return "Q(X): env (reference definitions) differs", T, e1, Y
        return None, T, e1, Y
    ok = (len(T) >= 4 and T[0].type in ("bullet_list_open", "ordered_list_open") and T[1].type == "list_item_open"
          and T[-2].type == "list_item_close" and T[-1].type.endswith("list_close")
          and sum(1 for t in T if t.level == 0) == 2 and sum(1 for t in T if t.level == 1) == 2)
    if not ok:
        return f"L(X) is not a one-item list", T, e1, Y
    # lazy continuation lines exist only inside containers of X itself: only then may a definition's title keep
    # the indentation the wrapper added
    lazy = any(t.type in ("blockquote_open", "list_item_open") for t in BX)
    if sig_loose(T[2:-2], 2, lazy) != sig_loose(BX, 0, lazy):
        return f"L(X): item contents differ from the blocks of X", T, e1, Y
    if e1 != envX and (not lazy or env_loose(e1) != env_loose(envX)):
        return f"L(X): env (reference definitions) differs", T, e1, Y
    return None, T, e1, Y


def applicable(X, w, table_on):
    if w == "Q":
        return True
    if table_on:
        return False
    first = X.split("\n")[0]
    if not first or first[0] == " ":
        return False
    if HR.match(w + first):
        return False
    return True


def explore(md, c, D, wrappers, depth, acc, sub):
    table_on = "table" in (c.get("enable") or [])
    e0 = {}
    B = acc.call(md.parse, D, e0)
    if B is CRASH:
        return
    types0 = tuple(t.type for t in B[:6])

    def rec(X, BX, envX, word, d):
        for w in wrappers:
            if not applicable(X, w, table_on):
                continue
            acc.case()
            err, T, e1, Y = law(md, X, BX, envX, w, False, acc)
            if T is None:
                continue
            if B:
                acc.sig((tuple(word + [w]), types0))
            if err:
                acc.violation(sub, re.sub(r"\(.*", "", err.split(":")[0]) + ":" + err.split(":")[-1][:50],
                              {"cfg": c, "base": D, "word": word + [w], "X": X}, err)
                continue
            if d + 1 < depth:
                rec(Y, T, e1, word + [w], d + 1)

    rec(D, B, e0, [], 0)


def bounds(tier):
    th = tier == "thorough"
    return {"wrappers": WRAPPERS, "separator_leaves": S.SEP_LEAVES, "prefixes": PREF, "leaves": LEAF,
            "K2_depth": 3 if th else 2, "K3": "full alphabet depth 1" if th else "reduced alphabet depth 1",
            "K1_depth": 4, "K1_depth6_wrappers": ["Q", "- ", "1. "] if th else None,
            "configs": [CM, CMT]}


def shards(tier):
    th = tier == "thorough"
    sh = []
    L = lines_of(PREF, LEAF)
    for ci in (0, 1):
        for f in L:
            sh.append(("k2", f, 3 if th else 2, ci))
        for f in L:
            sh.append(("k1", 4, ci, f))
            if th:
                sh.append(("k1deep", 6, ci, f))
    for f in S.SEP_LEAVES:
        sh.append(("ksep", f, 0))
    L3 = L if th else lines_of(PREF3, LEAF3)
    for f in L3:
        if th:
            for g in L3:
                sh.append(("k3", "full", f, g, 0))
        else:
            sh.append(("k3", "red", f, None, 0))
    return sh


def _cfg(ci):
    return CM if ci == 0 else CMT


def run_shard(sh, acc):
    kind = sh[0]
    if kind == "k2":
        _, f, depth, ci = sh
        c = _cfg(ci)
        md = C.build(c)
        L = lines_of(PREF, LEAF)
        for g in L:
            D = f + "\n" + g + "\n"
            explore(md, c, D, WRAPPERS, depth, acc, kind)
        acc.sample(kind, {"cfg": c, "base": f + "\n" + L[1] + "\n", "depth": depth})
    elif kind in ("k1", "k1deep"):
        _, depth, ci, f = sh
        c = _cfg(ci)
        md = C.build(c)
        wr = WRAPPERS if kind == "k1" else ["Q", "- ", "1. "]
        explore(md, c, f + "\n", wr, depth, acc, kind)
        acc.sample(kind, {"cfg": c, "base": f + "\n", "depth": depth}, 1)
    elif kind == "ksep":
        # characters that are line boundaries for str.splitlines() but not for Markdown, inside and around blocks
        _, f, ci = sh
        c = _cfg(ci)
        md = C.build(c)
        for P in ("", "> ", "- "):
            bases = [P + f + "\n"] + [P + f + "\n" + P + l + "\n" for l in LEAF3] + [P + l + "\n" + P + f + "\n" for l in LEAF3]
            for D in bases:
                explore(md, c, D, WRAPPERS, 2, acc, kind)
        acc.sample(kind, {"cfg": c, "base": f + "\n", "depth": 2}, 1)
    elif kind == "k3":
        _, which, f, g, ci = sh
        c = _cfg(ci)
        md = C.build(c)
        L3 = lines_of(PREF, LEAF) if which == "full" else lines_of(PREF3, LEAF3)
        seconds = [g] if g is not None else L3
        for g2 in seconds:
            for h in L3:
                explore(md, c, f + "\n" + g2 + "\n" + h + "\n", WRAPPERS, 1, acc, kind)
        acc.sample(kind, {"cfg": c, "base": f + "\n" + seconds[0] + "\n" + L3[2] + "\n", "depth": 1})


def check_case(case, acc):
    c = case["cfg"]
    md = C.build(c, fresh=True)
    X = case["X"]
    w = case["word"][-1]
    e0 = {}
    BX = acc.call(md.parse, X, e0)
    if BX is CRASH:
        return
    acc.case()
    if not applicable(X, w, "table" in (c.get("enable") or [])):
        return
    err, T, e1, Y = law(md, X, BX, e0, w, False, acc)
    if err:
        acc.violation(case["sub"], re.sub(r"\(.*", "", err.split(":")[0]) + ":" + err.split(":")[-1][:50],
                      {k: case[k] for k in ("cfg", "base", "word", "X")}, err)
