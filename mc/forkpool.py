"""fork_map: run fn(item) for every item, each in its own child forked from *this* process (so every execution
starts from exactly the parent's heap - used when module-level state must be pristine per execution)."""
from __future__ import annotations

import os
import pickle
import selectors
import signal


def fork_map(fn, items, nproc=16, timeout_s=120):
    """yields (index, result) in completion order; result is ('err', text) if the child died or raised"""
    for idx, _item, res in fork_imap(fn, items, nproc, timeout_s):
        yield idx, res


def fork_imap(fn, items, nproc=16, timeout_s=120):
    """like fork_map over any iterable (consumed lazily, so the parent stays small and forks stay cheap);
    yields (index, item, result)"""
    it = iter(items)
    sel = selectors.DefaultSelector()
    running = {}  # fd -> [pid, idx, chunks, item]
    nxt = 0
    exhausted = False
    while True:
        while not exhausted and len(running) < nproc:
            try:
                item = next(it)
            except StopIteration:
                exhausted = True
                break
            r, w = os.pipe()
            pid = os.fork()
            if pid == 0:
                try:
                    os.close(r)
                    signal.alarm(timeout_s)
                    try:
                        res = ("ok", fn(item))
                    except BaseException as e:  # noqa
                        import traceback

                        res = ("err", f"{type(e).__name__}: {e}\n{traceback.format_exc()[-800:]}")
                    data = pickle.dumps(res)
                    off = 0
                    while off < len(data):
                        off += os.write(w, data[off:off + 65536])
                finally:
                    os._exit(0)
            os.close(w)
            sel.register(r, selectors.EVENT_READ)
            running[r] = [pid, nxt, [], item]
            nxt += 1
        if exhausted and not running:
            return
        for key, _ in sel.select(timeout=5):
            fd = key.fd
            chunk = os.read(fd, 1 << 20)
            ent = running[fd]
            if chunk:
                ent[2].append(chunk)
                continue
            sel.unregister(fd)
            os.close(fd)
            os.waitpid(ent[0], 0)
            del running[fd]
            data = b"".join(ent[2])
            try:
                res = pickle.loads(data) if data else ("err", "child died without a result (hang/timeout/crash)")
            except Exception as e:  # noqa
                res = ("err", f"unpicklable result: {e}")
            yield ent[1], ent[3], res
