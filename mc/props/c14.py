"""C14 - an exception escaping from user code leaves the instance intact (exhaustive fault enumeration)."""
from __future__ import annotations

import collections
import itertools
import json

from .. import heapwalk

ID = "C14"
LEVEL = "fault_enumeration"
RULE = ("crash points: for each document x configuration every rule of the core/block/inline/inline2 chains, every "
        "render rule and the highlight callback is wrapped through the public plugin API; a counting run fixes the "
        "number of invocations per site (terminator and validation-mode invocations included); then for every site, "
        "every invocation index, both 'raise instead of it' and 'raise after it returned', and every exception class "
        "in {ValueError, KeyError, IndexError, StopIteration, RecursionError, BaseException subclass}: one faulty "
        "render. Oracle: the very same exception object propagates; afterwards active rules, options, render-rule "
        "table and the generic heap fingerprint of instance + package globals equal their pre-call values and the "
        "document renders as before; full pool probe after every site. Fault sequences: the instance is reused "
        "across all faults of a site (sequences of arbitrary length), thorough adds all ordered pairs of faults. "
        "reset_rules: every body program over {enable, disable, enableOnly, nested block, nested block whose "
        "exception is caught outside it} up to 3 steps and nesting 3 x exit in {normal, raise, return, generator "
        "close}: on every exit path the rules in force on entry are back and the exception object propagates. "
        "Non-trivial = a fault that was actually raised inside the library; distinct = distinct (config, document, "
        "site, when, class) fault kinds (the invocation index is not counted as distinct) plus distinct reset_rules "
        "programs.")

DOCS = [
    "# h\n\n> *a* [l](u) `c`\n\n- x\n- y\n\n```py\nz\n```\n\n![i](j) &amp; \\* [![n *o*](p)](q) [[r] s](t)\n",
    "|a|b|\n|-|-|\n|~~c~~|\"d\"|\n\n[r] -- (c)\n\n[r]: /u 't'\n\nt\n===\n\n***\n",
    "1. a\n\n   b\n2. c\n\n<div>\nh\n</div>\n\n<b>i</b> <http://x.y>  \nk\\\nl\n\n    code\n",
    "> - a\n>   > b\nlazy\n\n[![i](j)](k) **s _e_**\n",
]
POOL = DOCS + ["a", "[x][r]\n\n[r]: /v\n", "* * *\n- a\n"]
CFGS = [("commonmark", None, ()), ("js-default", {"typographer": True}, ()), ("zero", None, ("emphasis",))]


class Boom(Exception):
    pass


class BBoom(BaseException):
    pass


EXC = [ValueError, KeyError, IndexError, StopIteration, RecursionError, BBoom]


def build(ci):
    from markdown_it import MarkdownIt

    preset, opts, en = CFGS[ci]
    md = MarkdownIt(preset, opts)
    if en:
        md.enable(list(en))
    return md


def instrument(md, plan, counts):
    """plan: site -> (index, when, exc).  The invocation index is captured at wrapper entry (block rules re-enter
    themselves through nested tokenize)."""

    def wrap(site, fn):
        def w(*a, **k):
            counts[site] += 1
            mine = counts[site]
            p = plan.get(site)
            if p and p[0] == mine and p[1] == "before":
                plan["fired"] = True
                raise p[2]
            r = fn(*a, **k)
            if p and p[0] == mine and p[1] == "after":
                plan["fired"] = True
                raise p[2]
            return r

        return w

    for cname, ruler in (("core", md.core.ruler), ("block", md.block.ruler), ("inline", md.inline.ruler),
                         ("inline2", md.inline.ruler2)):
        for rule in list(ruler.__rules__):
            ruler.at(rule.name, wrap((cname, rule.name), rule.fn), {"alt": list(rule.alt)})
    for name, fn in list(md.renderer.rules.items()):
        md.renderer.rules[name] = wrap(("render", name), fn)
    md.options["highlight"] = wrap(("highlight", ""), lambda c, l, a: "")


def snapshot(md):
    return (json.dumps(md.get_active_rules(), sort_keys=True),
            json.dumps({k: (v if not callable(v) else "fn") for k, v in dict(md.options).items()}, sort_keys=True, default=str),
            tuple(sorted(md.renderer.rules)))


def fresh(ci):
    md = build(ci)
    counts = collections.Counter()
    plan = {}
    instrument(md, plan, counts)
    return md, plan, counts


def probe(md, counts):
    out = []
    for d in POOL:
        e = {}
        out.append((md.render(d, e), json.dumps(e, sort_keys=True, default=str)))
    counts.clear()
    return out


def faults_for_site(ci, di, site, N, acc, excs):
    doc = DOCS[di]
    md, plan, counts = fresh(ci)
    ref = md.render(doc)
    pool_ref = probe(md, counts)
    fp0 = heapwalk.fingerprint([md])[0]
    snap0 = snapshot(md)
    for i in range(1, N + 1):
        for when in ("before", "after"):
            for E in excs:
                exc = E("injected")
                plan.clear()
                counts.clear()
                plan[site] = (i, when, exc)
                acc.case()
                case = {"cfg": ci, "doc": di, "site": list(site), "index": i, "when": when, "exc": E.__name__}
                bad = None
                try:
                    md.render(doc)
                    bad = ("fault swallowed" if plan.get("fired") else "fault point not reached",
                           "the injected exception did not propagate to the caller" if plan.get("fired")
                           else "MACHINERY: injection point not reached")
                except BaseException as e:  # noqa
                    if e is not exc:
                        bad = (f"different exception {type(e).__name__}", f"caller received {type(e).__name__}: {e} instead of the injected object")
                plan.clear()
                counts.clear()
                if plan.get("fired") or bad is None:
                    acc.sig((ci, di, site, when, E.__name__))
                if bad is None:
                    if snapshot(md) != snap0:
                        bad = ("rules/options/render rules changed", f"after the failed call: {snapshot(md)} != {snap0}")
                    elif heapwalk.fingerprint([md])[0] != fp0:
                        bad = ("heap fingerprint changed", "instance or package globals differ from their pre-call state")
                    else:
                        try:
                            again = md.render(doc)
                        except BaseException as e:  # noqa
                            again = f"EXC {type(e).__name__}"
                        counts.clear()
                        if again != ref:
                            bad = ("later render differs", "the same document renders differently after the failed call")
                if bad:
                    acc.violation("fault", bad[0], case, bad[1])
                    md, plan, counts = fresh(ci)  # continue with a healthy instance
                    md.render(doc)
                    counts.clear()
                    fp0 = heapwalk.fingerprint([md])[0]
    # after the whole fault sequence on this instance: full pool probe
    plan.clear()
    try:
        now = probe(md, counts)
    except BaseException as e:  # noqa
        now = f"EXC {type(e).__name__}"
    if now != pool_ref:
        acc.violation("fault", "pool probe differs after fault sequence",
                      {"cfg": ci, "doc": di, "site": list(site), "index": "all", "when": "all", "exc": "all"},
                      "after all faults of this site the document pool renders differently from a fresh instance")


def site_counts(ci, di):
    md, plan, counts = fresh(ci)
    md.render(DOCS[di])
    return dict(counts)


def pairs_for_doc(ci, di, acc):
    """fault sequences of length 2: every ordered pair of (site, index) faults, 'before', one class"""
    doc = DOCS[di]
    sites = site_counts(ci, di)
    points = [(s, i) for s, n in sorted(sites.items()) for i in range(1, n + 1)]
    md, plan, counts = fresh(ci)
    ref = md.render(doc)
    counts.clear()
    fp0 = heapwalk.fingerprint([md])[0]
    snap0 = snapshot(md)
    for (s1, i1) in points:
        for (s2, i2) in points:
            acc.case()
            okk = True
            for (s, i) in ((s1, i1), (s2, i2)):
                exc = Boom("injected")
                plan.clear()
                counts.clear()
                plan[s] = (i, "before", exc)
                try:
                    md.render(doc)
                    okk = False
                except BaseException as e:  # noqa
                    if e is not exc:
                        okk = False
            plan.clear()
            counts.clear()
            if okk:
                if snapshot(md) != snap0:
                    okk = False
                else:
                    try:
                        okk = md.render(doc) == ref
                    except BaseException:  # noqa
                        okk = False
                    counts.clear()
            if not okk:
                acc.violation("faultpair", "instance differs after two faulty calls",
                              {"cfg": ci, "doc": di, "first": [list(s1), i1], "second": [list(s2), i2]},
                              "after two consecutive faulty renders the instance no longer behaves as before")
                md, plan, counts = fresh(ci)
                md.render(doc)
                counts.clear()
        if heapwalk.fingerprint([md])[0] != fp0:
            acc.violation("faultpair", "heap fingerprint changed", {"cfg": ci, "doc": di, "first": [list(s1), i1], "second": "any"},
                          "instance or package globals differ after fault pairs starting with this fault")
            fp0 = heapwalk.fingerprint([md])[0]


# ---- reset_rules ------------------------------------------------------------------------------------------------
ACTIONS = ["en:table", "dis:emphasis", "eo:inline:text,link", "dis:nope!", "en:balance_pairs,emphasis,fragments_join", "render"]
ENTRIES = ["", "ruler2-off", "inline-text-only"]
EXITS = ["normal", "raise", "return", "genclose"]


def programs(max_steps, depth, inner_steps):
    """body programs: tuple of steps; step = action | ('with', prog, exit) | ('withcatch', prog, exit)"""
    def steps(d):
        out = list(ACTIONS)
        if d > 0:
            for sub in list(bodies(inner_steps, d - 1)):
                for ex in ("normal", "raise", "return"):
                    out.append(("with", sub, ex))
                out.append(("withcatch", sub, "raise"))
        return out

    def bodies(n, d):
        yield ()
        alphabet = steps(d)
        for k in range(1, n + 1):
            yield from itertools.product(alphabet, repeat=k)

    return bodies(max_steps, depth)


def do_action(md, a):
    kind, *rest = a.split(":")
    if kind == "render":
        md.render("*a* ~~b~~ [c](d)\n\n|e|\n|-|\n")
        return
    if kind == "en":
        md.enable(rest[0].split(",") if "," in rest[0] else rest[0])
    elif kind == "dis":
        if rest[0].endswith("!"):
            md.disable(rest[0][:-1], True)
        else:
            md.disable(rest[0])
    elif kind == "eo":
        md[rest[0]].ruler.enableOnly(rest[1].split(","))


def run_block(md, body, exit_kind, errors, path):
    """execute `with md.reset_rules(): body; exit` and check that the rules on entry are back on every exit path"""
    entry = md.get_active_rules()
    exc = Boom("body")
    raised = None
    reached = [False]

    def inner():
        with md.reset_rules():
            for n, st in enumerate(body):
                if isinstance(st, str):
                    do_action(md, st)
                elif st[0] == "with":
                    run_block(md, st[1], st[2], errors, path + [n])
                else:
                    try:
                        run_block(md, st[1], st[2], errors, path + [n])
                    except Boom:
                        pass
            reached[0] = True
            if exit_kind == "raise":
                raise exc
            if exit_kind == "return":
                return "returned"
        return "fell through"

    def gen():
        with md.reset_rules():
            for n, st in enumerate(body):
                if isinstance(st, str):
                    do_action(md, st)
                elif st[0] == "with":
                    run_block(md, st[1], st[2], errors, path + [n])
                else:
                    try:
                        run_block(md, st[1], st[2], errors, path + [n])
                    except Boom:
                        pass
            yield 1

    try:
        if exit_kind == "genclose":
            g = gen()
            next(g)
            g.close()
        else:
            inner()
    except Boom as e:
        raised = e
    finally:
        after = md.get_active_rules()
        if after != entry:
            errors.append((path, exit_kind, "rules in force on entry were not restored"))
    if exit_kind == "raise" and reached[0] and raised is not exc:
        errors.append((path, exit_kind, "the body's exception did not propagate as the same object"))
    if raised is not None:
        raise raised


def reset_case(body, exit_kind, preset, acc, entry=""):
    from markdown_it import MarkdownIt

    md = MarkdownIt(preset)
    if entry == "ruler2-off":
        md.inline.ruler2.disable(md.inline.ruler2.get_active_rules())
    elif entry == "inline-text-only":
        md.inline.ruler.enableOnly(["text"])
    md.render("*a*")
    entry = md.get_active_rules()
    ref = md.render("*a* ~~b~~ [c](d)\n\n|e|\n|-|\n")
    errors = []
    try:
        run_block(md, body, exit_kind, errors, [])
    except Boom:
        pass
    except Exception as e:  # noqa
        errors.append(([], exit_kind, f"unexpected {type(e).__name__}: {e}"))
    if not errors and md.get_active_rules() != entry:
        errors.append(([], exit_kind, "rules differ from the rules before the block"))
    if not errors and md.render("*a* ~~b~~ [c](d)\n\n|e|\n|-|\n") != ref:
        errors.append(([], exit_kind, "a probe renders differently after the block although the reported rules are restored"))
    return errors


def _jsonable(body):
    return [s if isinstance(s, str) else [s[0], _jsonable(s[1]), s[2]] for s in body]


def _unjson(body):
    return tuple(s if isinstance(s, str) else (s[0], _unjson(s[1]), s[2]) for s in body)


# ---- driver --------------------------------------------------------------------------------------------------
def bounds(tier):
    th = tier == "thorough"
    return {"documents": len(DOCS) if th else 3, "configs": CFGS, "exception_classes": [e.__name__ for e in EXC],
            "when": ["before", "after"], "fault_pairs": "all ordered pairs on 2 documents (js-default)" if th else "none (sequences by instance reuse)",
            "reset_rules": {"entry_states": ENTRIES, "actions": ACTIONS, "exits": EXITS, "max_steps": 3 if th else 2, "nesting": 3 if th else 2, "inner_steps": 1, "presets": ["commonmark", "js-default"]}}


def shards(tier):
    # site counts need the library: they are computed inside the workers; here shards are (cfg, doc) plus
    # a site-partition index so that work spreads over the cores
    th = tier == "thorough"
    sh = []
    for ci in range(len(CFGS)):
        for di in range(len(DOCS) if th else 3):
            for part in range(8):
                sh.append(("faults", ci, di, part, 8))
    if th:
        for di in (0, 1):
            sh.append(("pairs", 1, di))
    for preset in ("commonmark", "js-default"):
        for ex in EXITS:
            for part in range(4):
                sh.append(("reset", preset, ex, 3 if th else 2, 3 if th else 2, 1, part, 4, ""))
            for entry in ENTRIES[1:]:
                sh.append(("reset", preset, ex, 2, 2, 1, 0, 1, entry))
    return sh


def run_shard(sh, acc):
    kind = sh[0]
    if kind == "faults":
        _, ci, di, part, nparts = sh
        sites = sorted(site_counts(ci, di).items())
        for n, (site, N) in enumerate(sites):
            if n % nparts != part:
                continue
            faults_for_site(ci, di, site, N, acc, EXC)
            acc.count("sites")
            acc.count("invocations", N)
        acc.sample("fault", {"cfg": CFGS[ci], "doc": DOCS[di], "site": list(sites[part % len(sites)][0]), "index": 1,
                             "when": "after", "exc": "StopIteration"}, 1)
    elif kind == "pairs":
        pairs_for_doc(sh[1], sh[2], acc)
    elif kind == "reset":
        _, preset, ex, ms, depth, inner, part, nparts, entry = sh
        for n, body in enumerate(programs(ms, depth - 1, inner)):
            if n % nparts != part:
                continue
            acc.case()
            errs = reset_case(body, ex, preset, acc, entry)
            acc.sig(("reset", preset, ex, entry, json.dumps(_jsonable(body))))
            for path, ek, msg in errs[:1]:
                acc.violation("reset_rules", f"{msg} (exit={ek})", {"preset": preset, "body": _jsonable(body), "exit": ex, "entry": entry},
                              msg + f" at nested path {path}, exit {ek}")
        acc.sample("reset_rules", {"preset": preset, "body": ["dis:emphasis", ["with", ["en:table"], "raise"]], "exit": ex}, 1)


def check_case(case, acc):
    sub = case["sub"]
    acc.case()
    if sub == "fault":
        if case["index"] == "all":
            N = site_counts(case["cfg"], case["doc"]).get(tuple(case["site"]), 0)
            faults_for_site(case["cfg"], case["doc"], tuple(case["site"]), N, acc, EXC)
            return
        E = {e.__name__: e for e in EXC}[case["exc"]]
        ci, di, site, i, when = case["cfg"], case["doc"], tuple(case["site"]), case["index"], case["when"]
        md, plan, counts = fresh(ci)
        doc = DOCS[di]
        ref = md.render(doc)
        counts.clear()
        fp0 = heapwalk.fingerprint([md])[0]
        snap0 = snapshot(md)
        exc = E("injected")
        plan[site] = (i, when, exc)
        bad = None
        try:
            md.render(doc)
            bad = ("fault swallowed", "the injected exception did not propagate to the caller")
        except BaseException as e:  # noqa
            if e is not exc:
                bad = (f"different exception {type(e).__name__}", "caller received another exception")
        plan.clear()
        counts.clear()
        if bad is None:
            if snapshot(md) != snap0:
                bad = ("rules/options/render rules changed", "state differs after the failed call")
            elif heapwalk.fingerprint([md])[0] != fp0:
                bad = ("heap fingerprint changed", "instance or package globals differ from their pre-call state")
            elif md.render(doc) != ref:
                bad = ("later render differs", "the same document renders differently after the failed call")
        if bad:
            acc.violation(sub, bad[0], {k: case[k] for k in ("cfg", "doc", "site", "index", "when", "exc")}, bad[1])
    elif sub == "reset_rules":
        errs = reset_case(_unjson(case["body"]), case["exit"], case["preset"], acc, case.get("entry", ""))
        for path, ek, msg in errs[:1]:
            acc.violation(sub, f"{msg} (exit={ek})", {k: case.get(k, "") for k in ("preset", "body", "exit", "entry")}, msg)
    elif sub == "faultpair":
        pairs_for_doc(case["cfg"], case["doc"], acc)
