"""C13 - concurrent or nested parses on a shared instance do not interfere (all interleavings under a controlled
scheduler, iterative preemption bounding; exhaustive re-entrancy).

Every execution runs in its own child forked from the check's master process, which only imports the package and
never calls it - so "first use" really is first use, including the lazily built module-level tables of the
dependency (mdurl) and the regex caches."""
from __future__ import annotations

import collections
import itertools
import json

from .. import heapwalk
from .. import spaces as S
from ..core import NPROC
from ..forkpool import fork_imap, fork_map

ID = "C13"
LEVEL = "model_checking"
SERIAL = True
RULE = ("stateless exploration, one pristine forked process per execution: real threads, one per call, serialised by "
        "a baton; scheduling points = every LINE event in markdown_it/mdurl plus every bytecode INSTRUCTION event "
        "inside markdown_it/ruler.py (where every access to the lazily built rule chains happens). Iterative "
        "preemption bounding: bound 0 = serial orders; bound 1 = A[:i] B A[i:] for every scheduling point i of A, "
        "ordered pairs of documents/call kinds and scenarios (fresh instance = first use of everything, warmed then "
        "reconfigured by enable/disable/ruler.push, warmed); bound 2 = A[:i] B[:j] A B over the shared-write windows "
        "at line granularity (quiescence lemma: no alternatives after the last shared write; shared writes located "
        "by the generic heap fingerprint); three threads bound 1 (thorough). Input dimension: zero-shared-write "
        "profile of solo calls on a warmed instance. Re-entrancy: a nested render/parse at every invocation of "
        "every rule / render rule / highlight callback. Oracle: every call's result equals its solo result; horizon "
        "= hang; failing schedules are replayed twice. states = distinct (scenario, calls, preemption position "
        "class, cache state at the end) observed; transitions = executions (complete schedules).")
ASSUMPTIONS = ["CPython switches threads only between bytecodes; free-threaded builds are out of scope",
               "configuration is not mutated concurrently (as the property states)"]

DOCS = ["a", "*a* `b`", "> q", "- l", "[x](y)", "![i](j)", "|a|\n|-|", "[r]\n\n[r]: /u", "<http://é.x/ü%3D%41%2f> &amp;",
        # paragraphs interrupted without a blank line: every named terminator chain is consulted
        "a\n# h\nb\n> q\nc\n- l\nd\n***\ne\n```\nf\n```\ng\n<div>\n\n[r]: /u\n1. o\nz\n|t|\n|-|\n",
        # inline scanners with per-parse scratch state: backtick run cache, delimiter stacks, link-label skip cache
        "``a `b` c `d` *e **f* g** [h `i](j) ![k][",
        "``y `x` *z* [w](v) **_a_** [[b](c)](d) ~~e~",
        # look-ahead nesting close to a (lowered) maxNesting; fenced blocks with info strings
        "[[[[a](b)]]] [[[[[c]]]]](d)",
        "```py\nx\n```\n\n~~~rb\ny\n~~~\n",
        "```js a=1\nz\n```\n",
        # block nesting exactly at the lowered limit (maxNesting 6): the result differs for maxNesting 5 and for 7
        "> > > > > a\n\n> > > > > > b\n",
        # emphasis and strong emphasis that span links and images (delimiter stacks saved and restored around them),
        # titles in all three places that take one (helpers that return a result object)
        "*a [b](c \"t\") d* **e ![f *g*](h 'u') i** [r]\n\n[r]: /v (w)\nx"]
# many distinct destinations in one call (bounded memo tables, eviction) - long, so only explored in windows
MANY_A = "".join(f"<http://h.x/a{i}> " for i in range(135)) + "\n"
MANY_B = "".join(f"[l](/b{i}) " for i in range(135)) + "\n"
PRESET = ("js-default", None)
B2_CAP = 60  # preemption points per call in the two-preemption exploration of lemma-failed documents
SCENARIOS = ["fresh", "reconf-disable", "reconf-enable", "reconf-push", "reconf-ruler2", "warm", "warm-mn6"]


def make_md(scenario):
    from markdown_it import MarkdownIt

    opts = dict(PRESET[1] or {})
    if scenario.endswith("-mn6"):
        opts["maxNesting"] = 6
        scenario = scenario[:-4]
    md = MarkdownIt(PRESET[0], opts or None)
    if scenario == "fresh":
        return md
    md.render("*w* `x` [l](m) <http://n.o>\n\n> - y\n\n|a|\n|-|\n")
    if scenario == "warm":
        return md
    if scenario == "reconf-disable":
        md.disable(["strikethrough"])
    elif scenario == "reconf-enable":
        md.disable(["table"])
        md.render("x")
        md.enable(["table"])
    elif scenario == "reconf-push":
        def never(state, silent):
            return False

        md.inline.ruler.push("never", never)
    elif scenario == "reconf-ruler2":
        md.inline.ruler2.disable(["strikethrough"])
    return md


def _where(e):
    import os
    import traceback

    for fr in reversed(traceback.extract_tb(e.__traceback__)):
        if "markdown_it" in fr.filename or "mdurl" in fr.filename:
            return f"{os.sep.join(fr.filename.split(os.sep)[-2:])}:{fr.name}"
    return "?"


class CallError(Exception):
    pass


def do_call(md, kind, doc):
    def f():
        try:
            return g()
        except Exception as e:
            raise CallError(f"{type(e).__name__} in {_where(e)}") from None

    def g():
        env = {}
        if kind == "render":
            return ("html", md.render(doc, env), json.dumps(env, sort_keys=True, default=str))
        if kind == "parse":
            return ("tokens", [t.as_dict() for t in md.parse(doc, env)], json.dumps(env, sort_keys=True, default=str))
        if kind == "parseInline":
            return ("tokens", [t.as_dict() for t in md.parseInline(doc, env)], "")
        raise KeyError(kind)

    return f


def cache_abs(md):
    out = []
    for r in (md.core.ruler, md.block.ruler, md.inline.ruler, md.inline.ruler2):
        c = r.__cache__
        if c is None:
            out.append("N")
        else:
            exp = sum(1 for x in r.__rules__ if x.enabled)
            out.append("C" if len(c.get("", ())) == exp else "P")
    return "".join(out)


# ---- executed in pristine forked children ------------------------------------------------------------------
def job_solo(job):
    """solo result plus step counts and generic shared-write steps at the given granularities"""
    from ..sched import Sched

    scenario, kind, doc, grans = job
    out = {"solo": do_call(make_md(scenario), kind, doc)()}
    return out


def job_profile(job):
    """solo run under the scheduler: number of steps; with a (lo, hi, stride) range also the sampled steps in that
    range after which the generic heap fingerprint differs from the previous sample (the profile is cut into ranges
    that run in parallel; long calls are first sampled coarsely and then refined inside the windows that changed)"""
    from ..sched import Sched

    scenario, kind, doc, gran, rng = job
    md = make_md(scenario)
    writes = []
    last = [None]
    stride = rng[2] if rng and len(rng) > 2 else 1

    def obs(i, step, code, arg):
        if step < rng[0] - 1 or step >= rng[1] or (step - (rng[0] - 1)) % stride:
            return
        g = heapwalk.fingerprint([md])[0]
        if last[0] is not None and g != last[0]:
            writes.append((step, f"{code.co_filename.split('/')[-1]}:{code.co_name}"))
        last[0] = g

    if rng and rng[0] <= 1:
        last[0] = heapwalk.fingerprint([md])[0]
    s = Sched(gran)
    res, steps = s.run([do_call(md, kind, doc)], [], 10 ** 7, obs if rng else None)
    return steps[0], writes


def profile_with_writes(keys):
    """keys: list of (scenario, kind, doc, gran); returns {key: (nsteps, writes)} using parallel range jobs"""
    n = {}
    for idx, res in fork_map(job_profile, [k + (None,) for k in keys], NPROC):
        if res[0] != "ok":
            raise RuntimeError("profile failed: " + str(res[1])[:300])
        n[keys[idx]] = res[1][0]
    out = {k: [] for k in keys}
    fine = []
    coarse = []
    for k in keys:
        if n[k] <= 2500:
            for lo in range(1, n[k] + 2, 60):
                fine.append(k + ((lo, lo + 60),))
        else:
            for lo in range(1, n[k] + 2, 4000):
                coarse.append(k + ((lo, lo + 4000, 80),))
    for idx, res in fork_map(job_profile, coarse, NPROC):
        if res[0] != "ok":
            raise RuntimeError("profile failed: " + str(res[1])[:300])
        for step, _site in res[1][1]:
            # the change happened within the 80 steps before this sample: refine there
            fine.append(coarse[idx][:4] + ((max(1, step - 80), step + 1),))
    for idx, res in fork_map(job_profile, fine, NPROC):
        if res[0] != "ok":
            raise RuntimeError("profile failed: " + str(res[1])[:300])
        out[fine[idx][:4]] += res[1][1]
    return {k: (n[k], sorted(set(out[k]))) for k in keys}


def job_exec(job):
    from ..sched import Sched

    scenario, calls, segments, gran, horizon, solos = job[:6]
    md = make_md(scenario)
    fns = [do_call(md, k, d) for k, d in calls]
    s = Sched(gran)
    res, steps = s.run(fns, segments, horizon)
    err = None
    for i, (r, so) in enumerate(zip(res, solos)):
        if r[0] == "hang":
            err = f"call {i} did not terminate within the horizon (hang)"
        elif r[0] == "exc":
            err = f"call {i} raised {r[1]}"
        elif r[1] != so:
            err = f"call {i} returned a result different from its solo result"
        if err:
            break
    sw = s.switches[0][2] if s.switches else ""
    return err, cache_abs(md), sw


def _cls(msg):
    if "hang" in msg:
        return "hang"
    if "raised" in msg:
        return "exception " + msg.split("raised ")[1][:80]
    return "wrong result"


# ---- re-entrancy ----------------------------------------------------------------------------------------------
def instrument(md, plan, counts):
    def wrap(site, fn):
        def w(*a, **k):
            counts[site] += 1
            p = plan.get(site)
            if p and p[0] == counts[site]:
                p[1]()
            return fn(*a, **k)

        return w

    for cname, ruler in (("core", md.core.ruler), ("block", md.block.ruler), ("inline", md.inline.ruler),
                         ("inline2", md.inline.ruler2)):
        for rule in list(ruler.__rules__):
            ruler.at(rule.name, wrap((cname, rule.name), rule.fn), {"alt": list(rule.alt)})
    for name, fn in list(md.renderer.rules.items()):
        md.renderer.rules[name] = wrap(("render", name), fn)
    md.options["highlight"] = wrap(("highlight", ""), lambda c, l, a: "")


REENTRY_OUTER = ("# h\n\n> *a* [l](u) `c`\n\n- x\n- y\n\n```py\nz\n```\n\n![i](j) &amp; \\*\n\n[r]\n\n[r]: /u\n\n|a|\n|-|\n\n"
                 "``a `b` c `d` *e **f* g** [h `i](j)\n")
REENTRY_INNER = ["*n* [m](o)\n\n> - p\n", "[r]\n\n[r]: /other\n", "```rb\nf\n```\n\n![i2](j2)", "``y `x` *z* [w](v) **_a_** [[b](c)](d)"]


def _mk_instrumented(preset):
    from markdown_it import MarkdownIt

    md = MarkdownIt(preset)
    counts = collections.Counter()
    plan = {}
    instrument(md, plan, counts)
    return md, plan, counts


def job_reentry_profile(job):
    preset, extra_inner = job
    md, plan, counts = _mk_instrumented(preset)
    ref_outer = md.render(REENTRY_OUTER)
    sites = {json.dumps(k): v for k, v in counts.items()}
    ref_inner = {}
    for d in list(REENTRY_INNER) + list(extra_inner):
        m2, _, _ = _mk_instrumented(preset)
        e = {}
        ref_inner[d] = (m2.render(d, e), json.dumps(e, sort_keys=True, default=str))
    return ref_outer, sites, ref_inner


def job_reentry(job):
    preset, site, i, d, kind, first_use, ref_outer, ref_inner = job
    site = tuple(site)
    md, plan, counts = _mk_instrumented(preset)
    if not first_use:
        md.render("warm *up* [a](b)")
        counts.clear()
    got = {}

    def nested():
        plan.clear()  # the nested call itself must not re-enter again
        e = {}
        if kind == "render":
            got["inner"] = (md.render(d, e), json.dumps(e, sort_keys=True, default=str))
        else:
            toks = md.parse(d, e)
            got["inner"] = (md.renderer.render(toks, md.options, e), json.dumps(e, sort_keys=True, default=str))

    plan[site] = (i, nested)
    try:
        outer = md.render(REENTRY_OUTER)
    except Exception as ex:
        return f"nested call raised {type(ex).__name__}: {ex}"
    if "inner" not in got:
        return None
    if outer != ref_outer:
        return "outer render differs from its solo result after a nested call"
    if got["inner"] != ref_inner:
        return "nested render differs from its solo result"
    return None


def job_lemma_docs(job):
    f, K = job
    md = make_md("warm")
    md.render("[x](y) <http://a.b> ![i](j) <http://é.x/ü>\n\n[r]: /u 't'\n")
    base = heapwalk.fingerprint([md])[0]
    n = 0
    bad = []
    for doc in itertools.chain(S.docs_with_first(f, S.FREE_LINES, K), DOCS, S.strings(S.ATOMS_CORE, 2)):
        try:
            md.render(doc)
        except Exception:
            continue
        n += 1
        g = heapwalk.fingerprint([md])[0]
        if g != base:
            bad.append(doc)
            base = g
    return n, bad


# ---- plan (runs in the pristine master) --------------------------------------------------------------------
QUICK_PAIRS = [("fresh", 1, 4, "mixed"), ("fresh", 4, 5, "mixed"), ("fresh", 8, 9, "mixed"), ("fresh", 7, 6, "line"),
               ("reconf-enable", 1, 9, "line"), ("reconf-push", 1, 3, "line"), ("reconf-disable", 4, 1, "line"),
               ("reconf-ruler2", 1, 2, "line"), ("warm", 10, 11, "line"), ("fresh", 11, 10, "line"),
               ("warm-mn6", 12, 12, "line"), ("warm", 13, 14, "line"), ("fresh", 8, 8, "line")]


def bounds(tier):
    th = tier == "thorough"
    return {"documents": DOCS, "scenarios": SCENARIOS, "granularity": "LINE + INSTRUCTION in ruler.py",
            "bound1": "every scheduling point of the first call; " + (
                "all ordered pairs of 8 documents x 6 scenarios + the quick pairs" if th else f"pairs (scenario, doc A, doc B, granularity) {QUICK_PAIRS}"),
            "bound2": "line granularity, preemptions at and after every shared write of each call; " + (
                "4 pairs" if th else "1 pair") + " x fresh; for each of the first 4 documents that fail the quiescence lemma "
                f"also (d,d), (d,E), (E,d) on a warmed instance, E = DOCS[16], at most {B2_CAP} points per call",
            "suspect_pairs": "each lemma-failed document x {itself, DOCS[10], DOCS[11], DOCS[9]} warmed, and x DOCS[15] with maxNesting 6, both orders, bound 1",
            "three_threads": th, "call_kinds": ["render", "parse", "parseInline"],
            "lemma_docs_every_line": len(DOCS) - 1 if th else 10,
            "lemma_docs_before_after": ("free L-space K<=2" if th else "free L-space K<=1") + " + pool + inline atom strings L<=2",
            "reentry": "every invocation of every site x 4 inner documents x {render, parse} x {first use, warmed}"}


def shards(tier):
    return [("all", tier)]


def _pairs(tier):
    th = tier == "thorough"
    out = []
    if th:
        T = [1, 4, 5, 8, 9, 10, 11, 13]
        for sc in SCENARIOS:
            if sc == "warm-mn6":
                out.append((sc, ("render", DOCS[12]), ("render", DOCS[12]), "line"))
                continue
            for a in T:
                for b in T:
                    out.append((sc, ("render", DOCS[a]), ("render", DOCS[b]), "line" if sc == "warm" else "mixed"))
        for sc, a, b, gran in QUICK_PAIRS:
            out.append((sc, ("render", DOCS[a]), ("render", DOCS[b]), gran))
    else:
        for sc, a, b, gran in QUICK_PAIRS:
            out.append((sc, ("render", DOCS[a]), ("render", DOCS[b]), gran))
    for sc in (("fresh", "reconf-disable") if th else ("fresh",)):
        for ka, kb in (("parse", "render"), ("render", "parseInline"), ("parseInline", "parse")):
            out.append((sc, (ka, DOCS[1]), (kb, DOCS[4]), "mixed" if th else "line"))
    return out


def run_shard(sh, acc):
    tier = sh[1]
    th = tier == "thorough"
    pairs = _pairs(tier)
    b2_pairs = [("fresh", ("render", DOCS[a]), ("render", DOCS[b])) for a, b in
                ([(1, 4), (4, 5), (0, 7), (6, 3)] if th else [(4, 5)])]
    three = [("fresh", ("render", DOCS[a]), ("render", DOCS[b]), ("render", DOCS[c])) for a, b, c in
             (((1, 4, 2), (7, 6, 5)) if th else ())]
    # 0. quiescence lemma: a render on a warmed instance writes nothing to the shared heap (generic fingerprint).
    #    A document for which this fails is not by itself a violation (a benign memo would do the same); it loses
    #    the lemma's protection, so its interleavings and re-entries are explored explicitly below.
    suspects = []
    lem = []
    for di in range(len(DOCS) - 2 if th else 9):
        lem.append(("warm", "render", DOCS[di], "line"))
    lem.append(("warm", "render", DOCS[16], "line"))
    lem.append(("warm", "render", MANY_A, "line"))
    lem.append(("warm", "render", MANY_B, "line"))
    windowed = []  # (scenario, call A, call B, steps of A at which to preempt)
    for k, (n, wr) in profile_with_writes(lem).items():
        acc.case()
        acc.count("lemma_line_profiles")
        acc.count("lemma_line_steps_fingerprinted", n)
        if wr:
            for w in wr[:6]:
                acc.add("shared_write_sites_warm", w[1])
            if n > 2500:
                # too long for a full sweep: preempt around every shared write of this call, against a partner
                # that makes as many writes of its own
                pts = sorted({w[0] + d for w in wr for d in (-1, 0, 1, 2, 3) if 1 <= w[0] + d <= n})
                for other in (MANY_A, MANY_B):
                    windowed.append(("warm", ("render", k[2]), ("render", other), pts))
                acc.add("lemma_failed_docs", k[2][:40] + "...")
            else:
                suspects.append(k[2])
    lines = S.FREE_LINES if th else S.FREE_LINES[:2]
    ld = [(f, 2 if th else 1) for f in lines]
    for idx, res in fork_map(job_lemma_docs, ld, NPROC):
        if res[0] != "ok":
            continue
        n, bad = res[1]
        acc.case(n)
        acc.count("lemma_before_after_docs", n)
        suspects.extend(bad[:3])
    acc.sample("lemma", {"scenario": "warm", "doc": DOCS[1], "granularity": "every line event, generic heap fingerprint"}, 1)
    suspects = sorted(set(suspects), key=lambda d: (len(d), d))[:6]
    acc.count("lemma_failed_docs", len(suspects))
    for d in suspects:
        acc.add("lemma_failed_docs", d)
        for other in (d, DOCS[10], DOCS[11], DOCS[9]):
            pairs.append(("warm", ("render", d), ("render", other), "line"))
            pairs.append(("warm", ("render", other), ("render", d), "line"))
        # ... and against the document that sits at the (lowered) nesting limit
        pairs.append(("warm-mn6", ("render", d), ("render", DOCS[15]), "line"))
        pairs.append(("warm-mn6", ("render", DOCS[15]), ("render", d), "line"))
    # ... and two preemptions (both calls inside their write windows at once) against the emphasis-over-links document
    sus_b2 = []
    for d in suspects[:4]:
        sus_b2.append(("warm", ("render", d), ("render", d)))
        if d != DOCS[16]:
            sus_b2.append(("warm", ("render", d), ("render", DOCS[16])))
            sus_b2.append(("warm", ("render", DOCS[16]), ("render", d)))
    # 1. solos and profiles
    need_solo = set()
    need_prof = set()
    for sc, ca, cb, gran in pairs:
        need_solo |= {(sc,) + ca, (sc,) + cb}
        need_prof.add((sc,) + ca + (gran, False))
    need_w = set()
    for sc, ca, cb in b2_pairs:
        need_solo |= {(sc,) + ca, (sc,) + cb}
        need_w |= {(sc,) + ca + ("line",), (sc,) + cb + ("line",)}
    for sc, ca, cb in sus_b2:
        need_solo |= {(sc,) + ca, (sc,) + cb}
        need_w |= {(sc,) + ca + ("line",), (sc,) + cb + ("line",)}
    for sc, ca, cb, pts in windowed:
        need_solo |= {(sc,) + ca, (sc,) + cb}
    for sc, ca, cb, cc in three:
        need_solo |= {(sc,) + ca, (sc,) + cb, (sc,) + cc}
        need_prof.add((sc,) + ca + ("line", False))
    need_solo = sorted(need_solo)
    need_prof = sorted(need_prof)
    solos = {}
    for idx, res in fork_map(job_solo, [k + ((),) for k in need_solo], NPROC):
        if res[0] != "ok":
            raise RuntimeError("solo failed: " + str(res[1])[:300])
        solos[need_solo[idx]] = res[1]["solo"]
    profs = {}
    for idx, res in fork_map(job_profile, [k[:4] + (None,) for k in need_prof], NPROC):
        if res[0] != "ok":
            raise RuntimeError("profile failed: " + str(res[1])[:300])
        profs[need_prof[idx]] = res[1]
    for k, v in profile_with_writes(sorted(need_w)).items():
        profs[k + (True,)] = v
    # 2. schedules (generated lazily: the master stays small so that forks stay cheap)
    import gc

    gc.collect()
    gc.freeze()

    def gen():
        for sc, ca, cb, gran in pairs:
            nA, _ = profs[(sc,) + ca + (gran, False)]
            horizon = 20 * nA + 5000
            so = [solos[(sc,) + ca], solos[(sc,) + cb]]
            calls = [list(ca), list(cb)]
            for segs in ([[0, None], [1, None]], [[1, None], [0, None]]):
                yield (sc, calls, segs, gran, horizon, so, "bound0")
            for i in range(1, nA + 1):
                yield (sc, calls, [[0, i], [1, None], [0, None]], gran, horizon, so, "bound1")
        for sc, ca, cb in b2_pairs:
            nA, wA = profs[(sc,) + ca + ("line", True)]
            nB, wB = profs[(sc,) + cb + ("line", True)]
            if not th:  # quick: only writes inside markdown_it itself (the rule chains)
                wA = [w for w in wA if w[1].startswith("ruler.py")]
                wB = [w for w in wB if w[1].startswith("ruler.py")]
            pa = sorted({w[0] + d for w in wA for d in (0, 1) if 1 <= w[0] + d <= nA})
            pb = sorted({w[0] + d for w in wB for d in (0, 1) if 1 <= w[0] + d <= nB})
            so = [solos[(sc,) + ca], solos[(sc,) + cb]]
            for i in pa:
                for j in pb:
                    yield (sc, [list(ca), list(cb)], [[0, i], [1, j], [0, None], [1, None]], "line",
                           20 * max(nA, nB) + 5000, so, "bound2")
        for sc, ca, cb in sus_b2:
            nA, wA = profs[(sc,) + ca + ("line", True)]
            nB, wB = profs[(sc,) + cb + ("line", True)]
            pa = sorted({w[0] + d for w in wA for d in (0, 1) if 1 <= w[0] + d <= nA})
            pb = sorted({w[0] + d for w in wB for d in (0, 1) if 1 <= w[0] + d <= nB})
            if len(pa) > B2_CAP or len(pb) > B2_CAP:
                acc.count("bound2_suspect_pairs_capped")
                pa, pb = pa[:B2_CAP], pb[:B2_CAP]
            so = [solos[(sc,) + ca], solos[(sc,) + cb]]
            for i in pa:
                for j in pb:
                    yield (sc, [list(ca), list(cb)], [[0, i], [1, j], [0, None], [1, None]], "line",
                           20 * max(nA, nB) + 5000, so, "bound2")
        for sc, ca, cb, pts in windowed:
            so = [solos[(sc,) + ca], solos[(sc,) + cb]]
            for i in pts:
                yield (sc, [list(ca), list(cb)], [[0, i], [1, None], [0, None]], "line", 400000, so, "windowed")
        for sc, ca, cb, cc in three:
            nA, _ = profs[(sc,) + ca + ("line", False)]
            so = [solos[(sc,) + ca], solos[(sc,) + cb], solos[(sc,) + cc]]
            for i in range(1, nA + 1):
                for o in ([1, 2], [2, 1]):
                    yield (sc, [list(ca), list(cb), list(cc)], [[0, i], [o[0], None], [o[1], None], [0, None]],
                           "line", 20 * nA + 5000, so, "3threads")

    for sc, ca, cb, gran in pairs:
        acc.maxi("steps_per_call_max", profs[(sc,) + ca + (gran, False)][0])
    for sc, ca, cb in b2_pairs:
        for w in profs[(sc,) + ca + ("line", True)][1] + profs[(sc,) + cb + ("line", True)][1]:
            acc.add("shared_write_sites_first_use", w[1])
    failing = []
    nsample = 0
    for idx, job, res in fork_imap(job_exec, gen(), NPROC):
        kind = job[6]
        acc.case()
        acc.count("transitions")
        acc.count("traces_validated_against_impl")
        acc.count("executions_" + kind)
        if res[0] != "ok":
            acc.violation("sched", "execution failed", _case(job, ""), "child process failed: " + str(res[1])[:200])
            continue
        err, cabs, sw = res[1]
        acc.sig((job[0], json.dumps(job[1]), kind, cabs, sw.rsplit(":", 1)[0]))
        if idx % 9973 == 17 and nsample < 3:
            acc.sample("sched", _case(job, sw), 3)
            nsample += 1
        if err:
            failing.append((job, err, sw))
    # 3. a failing schedule must reproduce identically (twice) before it is believed
    by_cls = {}
    for job, err, sw in failing:
        by_cls.setdefault((job[6], _cls(err), sw.split(":")[0]), []).append((job, err, sw))
    for key, lst in by_cls.items():
        lst.sort(key=lambda x: len(json.dumps(x[0][2])))
        job, err, sw = lst[0]
        rs = [r for _, r in fork_map(job_exec, [job, job], 2)]
        same = all(r[0] == "ok" and r[1][0] == err for r in rs)
        if not same:
            acc.violation("sched", "nondeterministic replay", _case(job, sw),
                          f"MACHINERY: schedule did not reproduce identically: {err} vs {[r[1] for r in rs]}")
            continue
        for job, err, sw in lst:
            acc.violation("sched", key[0] + " " + key[1], dict(_case(job, sw), error=err), err)
    # 5. re-entrancy
    for preset in ("commonmark", "js-default"):
        pr = dict(fork_map(job_reentry_profile, [(preset, suspects)], 1))[0]
        if pr[0] != "ok":
            raise RuntimeError("re-entrancy profile failed: " + str(pr[1])[:300])
        ref_outer, sites, ref_inner = pr[1]
        rj = []
        for site, N in sorted(sites.items()):
            for i in range(1, N + 1):
                for d in list(REENTRY_INNER) + suspects:
                    for kind in ("render", "parse"):
                        for first in ((True, False) if (th or preset == "commonmark") else (True,)):
                            rj.append((preset, json.loads(site), i, d, kind, first, ref_outer, ref_inner[d]))
        for idx, res in fork_map(job_reentry, rj, NPROC):
            acc.case()
            acc.count("transitions")
            acc.count("traces_validated_against_impl")
            acc.count("reentry_executions")
            j = rj[idx]
            acc.sig(("reentry", preset, tuple(j[1]), j[2] if j[2] < 4 else -1, j[4], j[5]))
            if res[0] != "ok":
                continue
            if res[1]:
                acc.violation("reentry", res[1].split(":")[0][:50],
                              {"preset": preset, "site": j[1], "index": j[2], "inner": j[3], "kind": j[4], "first_use": j[5]},
                              res[1])
        acc.sample("reentry", {"preset": preset, "site": rj[7][1], "index": rj[7][2], "inner": rj[7][3]}, 1)
    acc.count("states", len(acc.sigs))


def _case(job, sw):
    sc, calls, segs, gran, horizon, so = job[:6]
    return {"scenario": sc, "calls": calls, "segments": segs, "gran": gran, "switch_at": sw}


def check_case(case, acc):
    sub = case["sub"]
    acc.case()
    if sub == "sched":
        calls = [tuple(c) for c in case["calls"]]
        sc = case["scenario"]
        keys = [(sc,) + c + ((),) for c in calls]
        solos = [r[1]["solo"] for _, r in sorted(fork_map(job_solo, keys, 2))]
        prof = dict(fork_map(job_profile, [(sc,) + calls[0] + (case["gran"], None)], 1))[0][1]
        job = (sc, [list(c) for c in calls], case["segments"], case["gran"], 20 * prof[0] + 5000, solos)
        res = dict(fork_map(job_exec, [job], 1))[0]
        if res[0] == "ok" and res[1][0]:
            sw = res[1][2]
            acc.violation(sub, "replay " + _cls(res[1][0]), dict(_case(job, sw), error=res[1][0]), res[1][0])
    elif sub == "lemma":
        pass  # lemma failures are not violations any more (they widen the exploration instead)
    elif sub == "reentry":
        pr = dict(fork_map(job_reentry_profile, [(case["preset"], [case["inner"]])], 1))[0][1]
        job = (case["preset"], case["site"], case["index"], case["inner"], case["kind"], case["first_use"], pr[0],
               pr[2][case["inner"]])
        res = dict(fork_map(job_reentry, [job], 1))[0]
        if res[0] == "ok" and res[1]:
            acc.violation(sub, res[1].split(":")[0][:50], {k: case[k] for k in ("preset", "site", "index", "inner", "kind", "first_use")}, res[1])
