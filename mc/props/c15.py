"""C15 - tokens survive serialisation and tree conversion; rendering is repeatable."""
from __future__ import annotations

from .. import configs as C
from .. import inputs as I
from .. import spaces as S
from ..core import CRASH

ID = "C15"
LEVEL = "exploration"
RULE = ("token streams of line-shape documents (4 container prefixes x 17 leaves incl. nested images, empty "
        "containers, ordered lists with start, reference labels; K<=3), inline atom strings L<=3/4 and the corpus "
        "seeds, under configurations with store_labels/inline_definitions/typographer and the d<=1 neighbourhood on "
        "the core documents. For every token and each of the 4 (as_upstream, children) modes: "
        "from_dict(as_dict(t)) == t and the rebuilt stream renders identically; SyntaxTreeNode(tokens).to_tokens() "
        "is the identical object sequence; walk() order = stream order; parent/children/sibling links consistent; "
        "render twice: equal HTML and equal as_dict image after the first and second render. Non-trivial = stream "
        "with children or attrs; distinct = distinct token-type sequences.")

PREF = ["", "> ", "- ", "3. "]
LEAF = ["", "a", "# a", "*a* `b`", "![x ![y](z)](w)", "[l][r]", "[r]: /u", "![]()", "a|b", "-|-", "```py", "---",
        "a\\*b &amp;", "<b>", "[](u)", "**", "7) a"]
CFGS = [dict(C.cfg("js-default", {"store_labels": True}), plugin="attrs"),
        C.cfg("js-default", {"store_labels": True, "inline_definitions": True}),
        C.cfg("commonmark", {"typographer": True, "store_labels": True}, enable=["table", "strikethrough", "replacements", "smartquotes"]),
        # post-processing rules of the inline chain switched off: levels and text merging are then not normalised,
        # but serialisation, tree conversion and rendering must still be consistent with the stream as it is
        C.cfg("js-default", post=[["ruler2_disable", "fragments_join"]]),
        C.cfg("commonmark", enable=["strikethrough"], post=[["ruler2_disable", "balance_pairs"]])]


def _attr_plugin(md):
    """what attribute-injecting plugins do (line-number / class recipes): attrs on block tokens incl. fences"""
    def add_attrs(state):
        for t in state.tokens:
            if t.map and t.nesting >= 0 and t.type != "inline":
                t.attrSet("data-line", t.map[0])
            if t.type in ("fence", "code_block"):
                t.attrJoin("class", "hl")
            for c in t.children or []:
                if c.type in ("image", "link_open", "code_inline"):
                    c.attrJoin("class", "x")

    md.core.ruler.push("add_attrs", add_attrs)


_plugin_md = {}


def build(c):
    if c.get("plugin"):
        k = C.key(c)
        if k not in _plugin_md:
            base = {x: v for x, v in c.items() if x != "plugin"}
            md = C.build(base, fresh=True)
            md.use(_attr_plugin)
            _plugin_md[k] = md
        return _plugin_md[k]
    return C.build(c)


def lines():
    return sorted({p + l for p in PREF for l in LEAF})


def flat_openers(toks, out):
    for t in toks:
        if t.nesting == -1:
            continue
        out.append(t)
        if t.children:
            flat_openers(t.children, out)


def _balanced(tokens):
    depth = 0
    for t in tokens:
        depth += t.nesting
        if depth < 0:
            return False
        if t.children and not _balanced(t.children):
            return False
    return depth == 0


def laws(md, toks, acc):
    from markdown_it.token import Token
    from markdown_it.tree import SyntaxTreeNode

    env = {}
    # serialisation round trips
    for t in toks:
        for up in (True, False):
            for ch in (True, False):
                try:
                    d = t.as_dict(as_upstream=up, children=ch)
                    r = Token.from_dict(d)
                except Exception as e:
                    return f"from_dict(as_dict(as_upstream={up}, children={ch})) raises {type(e).__name__} on {t.type}"
                if r != t:
                    return f"round trip as_upstream={up} children={ch} changes a {t.type} token"
    try:
        rebuilt = [Token.from_dict(t.as_dict()) for t in toks]
        h0 = md.renderer.render(toks, md.options, env)
        hr = md.renderer.render(rebuilt, md.options, env)
    except Exception as e:
        return None  # rendering crashes are C01's
    if h0 != hr:
        return "rebuilt tokens render differently"
    # tree
    try:
        tree = SyntaxTreeNode(toks)
    except RecursionError:
        return None  # known finding of C02 (very deep delimiter nesting)
    except Exception as e:
        if _balanced(toks):
            return f"SyntaxTreeNode raises {type(e).__name__} on a stream whose open/close tokens balance"
        return None  # an unbalanced stream is C02's business
    back = tree.to_tokens()
    if len(back) != len(toks) or any(a is not b for a, b in zip(back, toks)):
        return "to_tokens() is not the identical token sequence"
    seq = []
    for n in tree.walk():
        if n.is_root:
            continue
        seq.append(n.token if n.token else n.nester_tokens.opening)
    flat = []
    flat_openers(toks, flat)
    if len(seq) != len(flat) or any(a is not b for a, b in zip(seq, flat)):
        return "walk() order differs from stream order"
    if tree.parent is not None:
        return "root has a parent"
    for n in tree.walk():
        for c in n.children:
            if c.parent is not n:
                return "child.parent is not the node"
        if not n.is_root:
            if not any(x is n for x in n.siblings):
                return "node not among its siblings"
            ns = n.next_sibling
            if ns is not None and ns.previous_sibling is not n:
                return "next_sibling.previous_sibling is not the node"
            ps = n.previous_sibling
            if ps is not None and ps.next_sibling is not n:
                return "previous_sibling.next_sibling is not the node"
    # the same laws for every top-level block taken alone (create_root=False: the node *is* the block)
    i = 0
    n = len(toks)
    while i < n:
        j = i
        if toks[i].nesting == 1:
            depth = 0
            while j < n:
                depth += toks[j].nesting
                if depth == 0:
                    break
                j += 1
        if j >= n:
            break
        sl = toks[i:j + 1]
        try:
            node = SyntaxTreeNode(sl, create_root=False)
        except RecursionError:
            node = None
        except Exception as e:
            return f"SyntaxTreeNode(block, create_root=False) raises {type(e).__name__}"
        if node is not None:
            bk = node.to_tokens()
            if len(bk) != len(sl) or any(a is not b for a, b in zip(bk, sl)):
                return "to_tokens() of a single-block tree (create_root=False) is not the identical token sequence"
            want = sl[0].type[:-5] if sl[0].nesting == 1 else sl[0].type
            if node.type != want or node.is_root:
                return f"a single-block tree (create_root=False) reports type {node.type!r}, is_root={node.is_root}"
        i = j + 1
    # repeatable rendering
    d1 = [t.as_dict() for t in toks]
    h2 = md.renderer.render(toks, md.options, env)
    d2 = [t.as_dict() for t in toks]
    if h2 != h0:
        return "rendering the same stream twice gives different output"
    if d1 != d2:
        return "the second render changed the tokens"
    h3 = md.renderer.render(toks, md.options, {})
    if h3 != h0:
        return "a later render of the stream differs"
    return None


def _one(md, mode, src, acc):
    toks = acc.call(md.parse if mode == "doc" else md.parseInline, src)
    if toks is CRASH:
        return None
    if any(t.children or t.attrs for t in toks):
        acc.sig(tuple(t.type for t in toks[:10]) + tuple(c.type for t in toks[:4] for c in (t.children or ())[:6]))
    return laws(md, toks, acc)


def bounds(tier):
    th = tier == "thorough"
    return {"lines": len(lines()), "K": 3, "atoms": S.ATOMS_CORE, "L": 4 if th else 3, "configs": CFGS,
            "neighbourhood_d": 1, "corpus_seeds": len(S.corpus_seeds())}


def shards(tier):
    th = tier == "thorough"
    sh = []
    for ci in range(len(CFGS)):
        for f in lines():
            sh.append(("lines", f, 3 if (th or ci == 1) else 2, ci))
        for f in S.ATOMS_CORE:
            sh.append(("inl", f, 4 if th else 3, ci))
    n = len(S.corpus_seeds())
    for i in range(0, n, 50):
        sh.append(("corpus", i, min(n, i + 50)))
    cfgs = C.neighbourhood(1)
    for i in range(0, len(cfgs), 6):
        sh.append(("cfgs", i, min(len(cfgs), i + 6)))
    return sh


def _iter(sh):
    k = sh[0]
    if k == "lines":
        _, f, K, ci = sh
        for d in S.docs_with_first(f, lines(), K, both_endings=False):
            yield CFGS[ci], "doc", d
    elif k == "inl":
        _, f, L, ci = sh
        for s in S.strings_with_first(f, S.ATOMS_CORE, L):
            yield CFGS[ci], "doc", s
            yield CFGS[ci], "inline", s
    elif k == "corpus":
        for seed in S.corpus_seeds()[sh[1]:sh[2]]:
            for c in CFGS:
                yield c, "doc", seed
    elif k == "cfgs":
        docs = I.core_docs()
        for c in C.neighbourhood(1)[sh[1]:sh[2]]:
            for d in docs[::3]:
                yield c, "doc", d


def run_shard(sh, acc):
    first = True
    for c, mode, src in _iter(sh):
        md = build(c)
        acc.case()
        if first:
            acc.sample(sh[0], {"cfg": c, "mode": mode, "src": src})
            first = False
        r = _one(md, mode, src, acc)
        if r:
            acc.violation(sh[0], r[:70], {"cfg": c, "mode": mode, "src": src}, r)


def check_case(case, acc):
    md = build(case["cfg"])
    acc.case()
    r = _one(md, case["mode"], case["src"], acc)
    if r:
        acc.violation(case["sub"], r[:70], {"cfg": case["cfg"], "mode": case["mode"], "src": case["src"]}, r)
