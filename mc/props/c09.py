"""C09 - backslash-escaping (and character references) make any text literal in every inline context."""
from __future__ import annotations

import html.entities
import itertools
import string

from .. import configs as C
from ..core import CRASH

ID = "C09"
LEVEL = "exploration"
RULE = ("all texts t of <=3 (thorough 4) symbols over a 34-symbol alphabet, without Unicode whitespace at the ends "
        "(link-title context: also with blanks at the ends) x forms {backslash before every ASCII punctuation, "
        "decimal, hex and named character references for punctuation and non-ASCII} x contexts {paragraph, ATX "
        "heading, emphasis, strong, strikethrough, emphasis inside link text, link text, image alt, link title, table cell} x {commonmark+table+strikethrough, "
        "js-default}; the rendered document must equal the context template with the independently HTML-escaped t. "
        "Non-trivial = t contains at least one ASCII punctuation character; distinct = distinct (t, form).")

PUNCT = set(string.punctuation)
CH = ["a", "1", " ", "\t", "*", "_", "`", "[", "]", "(", ")", "!", "<", ">", "\\", "&", "#", '"', "'", "~", "|", "-",
      "+", "=", ".", ":", "/", "é", " ", "—", "​", "\x01", "$", "{"]
NAMED = {}
for _n, _v in html.entities.html5.items():
    if _n.endswith(";") and len(_v) == 1 and (_v in PUNCT or ord(_v) > 127):
        if _v not in NAMED or (len(_n), _n) < (len(NAMED[_v]), NAMED[_v]):
            NAMED[_v] = _n

CFGS = [C.cfg("commonmark", enable=["table", "strikethrough"]), C.cfg("js-default")]


def esc_html(s):
    return s.replace("&", "&amp;").replace("<", "&lt;").replace(">", "&gt;").replace('"', "&quot;")


def f_bs(t):
    return "".join("\\" + c if c in PUNCT else c for c in t)


def f_dec(t):
    return "".join(f"&#{ord(c)};" if (c in PUNCT or ord(c) > 127) else c for c in t)


def f_hex(t):
    return "".join(f"&#x{ord(c):X};" if (c in PUNCT or ord(c) > 127) else c for c in t)


def f_named(t):
    return "".join(("&" + NAMED[c]) if c in NAMED else (f"&#{ord(c)};" if (c in PUNCT or ord(c) > 127) else c)
                   for c in t)


FORMS = {"bs": f_bs, "dec": f_dec, "hex": f_hex, "named": f_named}


def cases(e, h, xhtml, table):
    out = {
        "p": (e, f"<p>{h}</p>\n"),
        "h": ("# " + e, f"<h1>{h}</h1>\n"),
        "em": ("*" + e + "*", f"<p><em>{h}</em></p>\n"),
        "link": ("[" + e + "](u)", f'<p><a href="u">{h}</a></p>\n'),
        "img": ("![" + e + "](u)", f'<p><img src="u" alt="{h}"' + (" />" if xhtml else ">") + "</p>\n"),
        "title": ('[x](u "' + e + '")', f'<p><a href="u" title="{h}">x</a></p>\n'),
        "strong": ("**" + e + "**", f"<p><strong>{h}</strong></p>\n"),
        "s": ("~~" + e + "~~", f"<p><s>{h}</s></p>\n"),
        "em_in_link": ("[*" + e + "*](u)", f'<p><a href="u"><em>{h}</em></a></p>\n'),
    }
    if table:
        out["td"] = ("|" + e + "|\n|-|", f"<table>\n<thead>\n<tr>\n<th>{h}</th>\n</tr>\n</thead>\n</table>\n")
        # rows written without the optional leading / trailing pipes, t in the last cell
        out["td_open_row"] = ("h|k\n-|-\nx|" + e, "<table>\n<thead>\n<tr>\n<th>h</th>\n<th>k</th>\n</tr>\n</thead>\n<tbody>\n<tr>\n"
                              f"<td>x</td>\n<td>{h}</td>\n</tr>\n</tbody>\n</table>\n")
    return out


def ends_ok(t):
    return not t[0].isspace() and not t[-1].isspace()


def denotable(ch):
    """may an HTML character reference denote this code point (otherwise it is replaced by U+FFFD by design)"""
    o = ord(ch)
    return not (o < 32 and ch != "\t" or 0x7F <= o <= 0x9F or 0xFDD0 <= o <= 0xFDEF or (o & 0xFFFF) >= 0xFFFE)


def sweep_chars():
    """every control, separator, blank, format and punctuation character (line ends and NUL excluded: a text is a
    single line, NUL is replaced by design)"""
    import unicodedata

    out = []
    for cp in range(1, 0x110000):
        ch = chr(cp)
        if ch in "\n\r" or 0xD800 <= cp <= 0xDFFF:
            continue
        cat = unicodedata.category(ch)
        if cat in ("Cc", "Cf", "Zs", "Zl", "Zp") or cat[0] == "P" or ch.isspace() or cp in (0xFFFD, 0xFFFE, 0x10FFFF, 0xE000):
            out.append(ch)
    return out


SWEEP_T = ["a{c}b", "a{c}*b", "{c}a", "a{c}", "a {c}{c} b"]


def one_t(md, c, t, acc, sub="t"):
    xhtml = md.options["xhtmlOut"]
    trimmed = ends_ok(t)
    for form, f in FORMS.items():
        if form != "bs" and not all(denotable(ch) for ch in t):
            continue
        e = f(t)
        h = esc_html(t)
        if any(ch in PUNCT for ch in t):
            acc.sig((t, form))
        for name, (src, exp) in cases(e, h, xhtml, True).items():
            if not trimmed and name != "title":
                continue
            acc.case()
            out = acc.call(md.render, src)
            if out is CRASH:
                continue
            if out != exp:
                acc.violation(name, f"{form}/{name}", {"cfg": c, "t": t, "form": form, "ctx": name},
                              f"render({src!r}) = {out!r}, expected {exp!r}")


# ---- every HTML5 named reference and the numeric spellings at the length limits --------------------------------
def all_named():
    out = []
    for n, v in sorted(html.entities.html5.items()):
        if n.endswith(";") and all(ord(ch) >= 32 and ch not in "\x7f" for ch in v):
            out.append((n, v))
    return out


NUMERIC_POINTS = [0x21, 0x2A, 0x3C, 0x41, 0x5C, 0x7C, 0xA0, 0xE9, 0x2014, 0x200B, 0xFFFD, 0x10000, 0x1F600, 0x10FFFD]


def numeric_spellings(cp):
    out = []
    d = str(cp)
    for width in range(len(d), 8):
        out.append("&#" + d.rjust(width, "0") + ";")
    for hx in (f"{cp:x}", f"{cp:X}"):
        for width in range(len(hx), 7):
            for x in "xX":
                out.append("&#" + x + hx.rjust(width, "0") + ";")
    return out


def ref_case(md, c, ref, value, acc, label):
    """the reference `ref` must render as the literal text `value` in every context (alone and between letters)"""
    xhtml = md.options["xhtmlOut"]
    for pre, post in (("", ""), ("a", "b"), ("a ", " b")):
        e = pre + ref + post
        t = pre + value + post
        if not ends_ok(t) or "\n" in value:
            continue
        h = esc_html(t)
        for name, (src, exp) in cases(e, h, xhtml, True).items():
            acc.case()
            out = acc.call(md.render, src)
            if out is CRASH:
                continue
            if out != exp:
                acc.violation(name, f"{label}/{name}", {"cfg": c, "ref": ref, "value": value, "ctx": name, "pre": pre, "post": post},
                              f"render({src!r}) = {out!r}, expected {exp!r}")
    acc.sig(("ref", ref))


def bounds(tier):
    return {"alphabet": CH, "L": 4 if tier == "thorough" else 3, "forms": list(FORMS), "configs": CFGS,
            "contexts": ["p", "h", "em", "strong", "s", "em_in_link", "link", "img", "title", "td", "td_open_row"], "named_references": len(NAMED),
            "all_html5_names": len(all_named()),
            "character_sweep": {"characters": len(sweep_chars()), "what": "every Cc/Cf/Zs/Zl/Zp/P* character and every str.isspace() character except LF, CR, NUL", "texts": SWEEP_T}, "numeric_points": [hex(x) for x in NUMERIC_POINTS],
            "numeric_spellings": "decimal padded to 7 digits, hex (x/X, both cases) padded to 6 digits"}


def shards(tier):
    L = 4 if tier == "thorough" else 3
    sh = []
    for ci in range(len(CFGS)):
        for a in CH:
            if tier == "thorough":
                for b in CH:
                    sh.append(("t2", a, b, L, ci))
            else:
                sh.append(("t", a, L, ci))
        names = all_named()
        for i in range(0, len(names), 150):
            sh.append(("names", i, min(len(names), i + 150), ci))
        sh.append(("numeric", ci))
        n = len(sweep_chars())
        for i in range(0, n, 60):
            sh.append(("chars", i, min(n, i + 60), ci))
    return sh


def run_shard(sh, acc):
    if sh[0] == "names":
        _, lo, hi, ci = sh
        c = CFGS[ci]
        md = C.build(c)
        for n, v in all_named()[lo:hi]:
            ref_case(md, c, "&" + n, v, acc, "named")
        acc.sample("names", {"cfg": c, "ref": "&" + all_named()[lo][0], "value": all_named()[lo][1]}, 1)
        return
    if sh[0] == "chars":
        _, lo, hi, ci = sh
        c = CFGS[ci]
        md = C.build(c)
        for ch in sweep_chars()[lo:hi]:
            for tt in SWEEP_T:
                one_t(md, c, tt.replace("{c}", ch), acc)
        acc.sample("chars", {"cfg": c, "t": "a\x0cb", "form": "bs", "ctx": "h"}, 1)
        return
    if sh[0] == "numeric":
        c = CFGS[sh[1]]
        md = C.build(c)
        for cp in NUMERIC_POINTS:
            for ref in numeric_spellings(cp):
                ref_case(md, c, ref, chr(cp), acc, "numeric")
        acc.sample("numeric", {"cfg": c, "ref": "&#x00002A;", "value": "*"}, 1)
        return
    if sh[0] == "t":
        _, a, L, ci = sh
        pre = a
    else:
        _, a, b, L, ci = sh
        pre = a + b
    c = CFGS[ci]
    md = C.build(c)
    if sh[0] == "t" or True:
        lens = range(0, L - len(pre) + 1) if sh[0] == "t2" else range(0, L)
        if sh[0] == "t2":
            # the 1-symbol texts are produced by the shard whose second symbol is the first of the alphabet
            if b == CH[0]:
                one_t(md, c, a, acc)
        for k in lens:
            for combo in itertools.product(CH, repeat=k):
                one_t(md, c, pre + "".join(combo), acc)
    acc.sample("t", {"cfg": c, "t": pre + "*", "form": "bs", "src": "# " + f_bs(pre + "*")}, 1)


def check_case(case, acc):
    c = case["cfg"]
    md = C.build(c, fresh=True)
    if "ref" in case:
        e = case["pre"] + case["ref"] + case["post"]
        t = case["pre"] + case["value"] + case["post"]
        src, exp = cases(e, esc_html(t), md.options["xhtmlOut"], True)[case["ctx"]]
        acc.case()
        out = acc.call(md.render, src)
        if out is not CRASH and out != exp:
            acc.violation(case["sub"], f"reference/{case['ctx']}", {k: case[k] for k in ("cfg", "ref", "value", "ctx", "pre", "post")},
                          f"render({src!r}) = {out!r}, expected {exp!r}")
        return
    t, form, name = case["t"], case["form"], case["ctx"]
    e = FORMS[form](t)
    src, exp = cases(e, esc_html(t), md.options["xhtmlOut"], True)[name]
    acc.case()
    out = acc.call(md.render, src)
    if out is not CRASH and out != exp:
        acc.violation(name, f"{form}/{name}", {"cfg": c, "t": t, "form": form, "ctx": name},
                      f"render({src!r}) = {out!r}, expected {exp!r}")
