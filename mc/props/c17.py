"""C17 - equivalent encodings parse identically: line endings, NUL, structural tabs."""
from __future__ import annotations

import itertools
import re

from .. import configs as C
from .. import inputs as I
from .. import spaces as S
from ..core import CRASH

ID = "C17"
LEVEL = "exploration"
RULE = ("(1) every line-shape document of <=3 lines (free and contextual) and every inline string containing line "
        "breaks: every assignment of {LF, CRLF, CR} to each line end vs the LF twin - tokens (maps included) and "
        "HTML identical, no CR/NUL in any content/info/markup/attr, under the main configurations and the d<=1 "
        "neighbourhood on the core documents; NUL inserted at every position of every atom string vs U+FFFD. "
        "(2a) documents whose lines carry every leading-whitespace spelling from a 10-element space/tab alphabet vs "
        "their column-exact space expansion. (2b) lines of <=2 (thorough 3) container segments (indent 0-3, marker "
        "> - 1., blank run 1-4, last run 1-8) x 6 leaves: the all-spaces spelling vs every spelling in which each "
        "tab ends on a tab stop. Tabs are compared modulo leading blanks of verbatim lines and of inline content "
        "lines and blank runs in code spans. Non-trivial = variant differs textually from its twin; distinct = "
        "distinct (sub-check, twin token-type sequence, variant spelling class).")

MAIN = [C.cfg("commonmark", enable=["table"]), C.cfg("js-default", {"typographer": True})]
VERB = {"code_block", "fence", "html_block"}


def cols(s, start=0):
    c = start
    for ch in s:
        c = c + (4 - c % 4) if ch == "\t" else c + 1
    return c


def expand_leading(line):
    m = re.match(r"[ \t]*", line)
    return " " * cols(m.group(0)) + line[m.end():]


def _norm_children(ch):
    out = []
    for c in ch or []:
        d = c.as_dict(children=False)
        if c.type == "code_inline":
            d["content"] = re.sub(r"[ \t]+", " ", d["content"]).strip()
        d["children"] = _norm_children(c.children) if c.children else c.children
        out.append(d)
    return out


def sig_tabs(tokens):
    out = []
    for t in tokens:
        d = t.as_dict(children=False)
        if t.type in VERB:
            d["content"] = "\n".join(l.lstrip(" \t") for l in d["content"].split("\n"))
        if t.type == "inline":
            d["content"] = "\n".join(l.lstrip(" \t") for l in d["content"].split("\n"))
            d["children"] = _norm_children(t.children)
        out.append(d)
    return out


def dirty(tokens):
    """CR or NUL anywhere in the stream?"""
    for t in tokens:
        for s in (t.content, t.info, t.markup):
            if "\r" in s or "\x00" in s:
                return f"{t.type} carries a CR/NUL"
        for v in (t.attrs or {}).values():
            if isinstance(v, str) and ("\r" in v or "\x00" in v):
                return f"attribute of {t.type} carries a CR/NUL"
        if t.children:
            r = dirty(t.children)
            if r:
                return r
    return None


# ---- (1) line endings / NUL ---------------------------------------------------------------------------------
def eol_variants(doc, uniform_only=False):
    parts = doc.split("\n")
    k = len(parts) - 1
    if k == 0:
        return
    if uniform_only:
        yield "\r\n".join(parts)
        yield "\r".join(parts)
        return
    for ends in itertools.product(("\n", "\r\n", "\r"), repeat=k):
        if all(e == "\n" for e in ends):
            continue
        # a lone CR directly followed by the LF of the next (empty) line would read as one CRLF
        if any(ends[i] == "\r" and parts[i + 1] == "" and ends[i + 1].startswith("\n") for i in range(k - 1)):
            continue
        yield "".join(p + e for p, e in zip(parts, ends)) + parts[-1]


def same_as_twin(md, twin, variant, acc, what):
    e1, e2 = {}, {}
    a = acc.call(md.parse, twin, e1)
    if a is CRASH:
        return None
    b = acc.call(md.parse, variant, e2)
    if b is CRASH:
        return None
    A = [t.as_dict() for t in a]
    if A != [t.as_dict() for t in b]:
        return f"{what}: tokens differ from the canonical twin"
    if e1 != e2:
        return f"{what}: env differs from the canonical twin"
    r = dirty(b)
    if r:
        return f"{what}: {r}"
    ha = acc.call(md.renderer.render, a, md.options, e1)
    hb = acc.call(md.renderer.render, b, md.options, e2)
    if ha is not CRASH and hb is not CRASH and ha != hb:
        return f"{what}: HTML differs from the canonical twin"
    return None


# ---- (2b) constructed lines ---------------------------------------------------------------------------------
def spellings(c, k):
    if k == 0:
        yield ""
        return
    for r in spellings(c + 1, k - 1):
        yield " " + r
    nxt = c + (4 - c % 4)
    if nxt <= c + k:
        for r in spellings(nxt, c + k - nxt):
            yield "\t" + r


MARKS = [">", "-", "1."]
LEAVES_B = ["x", "# x", "- x", "> x", "```", "[a]: /u"]


def chains(depth, ind0s=range(0, 4)):
    for ind0 in ind0s:
        for mks in itertools.product(MARKS, repeat=depth):
            for runs in itertools.product(range(1, 5), repeat=depth - 1):
                for last in range(1, 9):
                    segs = [("b", ind0)]
                    for i, mk in enumerate(mks):
                        segs.append(("l", mk))
                        segs.append(("b", runs[i] if i < depth - 1 else last))
                    yield segs


def tab_spellings(segs):
    def gen(i, c):
        if i == len(segs):
            yield ""
            return
        k, w = segs[i]
        if k == "l":
            for r in gen(i + 1, c + len(w)):
                yield w + r
        else:
            for s in spellings(c, w):
                for r in gen(i + 1, c + w):
                    yield s + r

    yield from gen(0, 0)


def second_line_segs(first):
    """container re-entry on a following line for a first line given as chain segments: every choice of quote
    marker indentation (0-1 extra columns) and following blank run (1, 2 or 4 columns); list segments become the
    blanks that reach their content offset"""
    marks = [(first[i][1], first[i + 1][1]) for i in range(1, len(first) - 1, 2)]

    def rec(i, segs, pending):
        if i == len(marks):
            yield segs, pending
            return
        mk, run = marks[i]
        if mk == ">":
            for ind in (0, 1):
                for r in (1, 2, 4):
                    s2 = list(segs)
                    if pending + ind:
                        s2.append(("b", pending + ind))
                    s2.append(("l", ">"))
                    yield from rec(i + 1, s2, r)
        else:
            w = len(mk) + (run if run <= 4 else 1)
            yield from rec(i + 1, segs, pending + w)

    for segs, pending in rec(0, [], first[0][1]):
        for extra in (0, 1, 3):
            yield segs + ([("b", pending + extra)] if pending + extra else [])


LEAVES_2 = ["x", "- x", "> x", "# x"]

# (2d) whole documents: every structural blank run of every line (indentation and the blanks after quote / list
# markers) respelled with tabs wherever a tab ends on a tab stop
DOC_LINES = [">", "> a", "> - a", ">- a", ">-  a", ">  - a", ">   a", ">     a", "- a", "-  a", "  a", "   a", "    a", "1. a",
             ">   - b", "> >  a", "-   - a", "     a", "- <div>", "    foo", "1. <!-- x", "     y -->", "   - a", "    - b",
             # a plain paragraph line, and markers followed by blanks only (empty items, which may not interrupt a paragraph)
             "a", "*   ", "1.  ", "-   ", "2)  ", "+ ", ">  "]
STRUCT = re.compile(r"( +)|(>)|([-+*](?= ))|(\d{1,2}[.)](?= ))")


def line_segs(line):
    """split a space-spelled line into structural segments (blank runs and markers) and the rest"""
    segs = []
    pos = 0
    while pos < len(line):
        m = STRUCT.match(line, pos)
        if not m:
            break
        if m.group(1):
            segs.append(("b", len(m.group(1))))
        else:
            segs.append(("l", m.group(0)))
        pos = m.end()
    return segs, line[pos:]


def doc_tab_variants(doc, cap=400):
    per_line = []
    for line in doc.split("\n"):
        segs, rest = line_segs(line)
        alts = [t + rest for t in tab_spellings(segs)] if segs else [line]
        per_line.append(alts[:12])
    n = 0
    for combo in itertools.product(*per_line):
        v = "\n".join(combo)
        if "\t" in v:
            n += 1
            yield v
            if n >= cap:
                return


# ---- driver --------------------------------------------------------------------------------------------------
TAB_PREF = ["", "\t", " \t", "  \t", "   \t", "\t\t", "    ", "  ", "\t ", "\t  "]
TAB_LEAF = ["", "a", "# a", "---", "- a", "> a", ">", "```", "[a]: /u", "-", "1. a", "<div>", "-\ta", ">\ta", "a\\", "a  "]
NUL_ATOMS = ["a", " ", "*", "`", "[", "]", "(u)", "<", ">", "\\", "&amp;", "\n", "#", "- ", "> ", "|", "&#", ";", "\"", "://"]


def tab_lines():
    return sorted({p + l for p in TAB_PREF for l in TAB_LEAF})


def bounds(tier):
    th = tier == "thorough"
    return {"eol_K": "3 (every assignment)" if th else "2 (every assignment), 3 (uniform CRLF / CR)", "eol_contexts": S.CONTEXTS[:4] if th else S.CONTEXTS[:2], "eol_hood_d": 1,
            "nul_atoms": NUL_ATOMS, "nul_L": 4 if th else 3, "tab_prefixes": TAB_PREF, "tab_leaves": TAB_LEAF,
            "tab_K": 3 if th else 2, "chain_depth": 3 if th else 2, "chain_leaves": LEAVES_B, "configs": MAIN}


def shards(tier):
    th = tier == "thorough"
    sh = []
    # (1) line endings on the L-space
    for ci in range(len(MAIN)):
        for f in S.FREE_LINES:
            sh.append(("eol-free", f, 3 if th else 2, ci, False))
            if not th:
                sh.append(("eol-free", f, 3, ci, True))
        for P in (S.CONTEXTS[:4] if th else S.CONTEXTS[:2]):
            for f in S.ctx_lines(P, S.LEAVES_TINY):
                sh.append(("eol-ctx", P, f, 3 if th else 2, ci, False))
                if not th and ci == 0 and P == S.CONTEXTS[0]:
                    sh.append(("eol-ctx", P, f, 3, ci, True))
    hood = C.neighbourhood(1)
    for i in range(0, len(hood), 6):
        sh.append(("eol-hood", i, min(len(hood), i + 6)))
    for f in NUL_ATOMS:
        sh.append(("nul", f, 4 if th else 3))
    # (2a)
    for f in tab_lines():
        sh.append(("tabs-lead", f, 3 if th else 2))
    # (2b)
    for d in ((1, 2, 3) if th else (1, 2)):
        for ind0 in range(0, 4):
            for mk in MARKS:
                sh.append(("tabs-chain", d, ind0, mk))
    for d in (1, 2):
        for ind0 in ((0, 1, 3) if th else (0, 1)):
            for mk in MARKS:
                sh.append(("tabs-chain2", d, ind0, mk, th))
    for f in DOC_LINES:
        sh.append(("tabs-docs", f, 4 if th else 3))
    return sh


def run_shard(sh, acc):
    kind = sh[0]
    if kind in ("eol-free", "eol-ctx"):
        if kind == "eol-free":
            _, f, K, ci, uni = sh
            docs = S.docs_with_first(f, S.FREE_LINES, K)
        else:
            _, P, f, K, ci, uni = sh
            docs = S.docs_with_first(f, S.ctx_lines(P, S.LEAVES_TINY), K)
        c = MAIN[ci]
        md = C.build(c)
        first = True
        for d in docs:
            if "\r" in d:
                continue
            for v in eol_variants(d, uni):
                acc.case()
                if first:
                    acc.sample("eol", {"cfg": c, "twin": d, "variant": v})
                    first = False
                r = same_as_twin(md, d, v, acc, "line endings")
                if r:
                    acc.violation("eol", r, {"cfg": c, "twin": d, "variant": v}, r)
            acc.sig(("eol", d))
    elif kind == "eol-hood":
        docs = [d for d in I.core_docs() if "\n" in d and "\r" not in d]
        for c in C.neighbourhood(1)[sh[1]:sh[2]]:
            md = C.build(c)
            for d in docs:
                for v in eol_variants(d):
                    acc.case()
                    r = same_as_twin(md, d, v, acc, "line endings")
                    if r:
                        acc.violation("eol", r, {"cfg": c, "twin": d, "variant": v}, r)
        acc.sample("eol", {"cfg": C.neighbourhood(1)[sh[1]], "twin": docs[3], "variant": docs[3].replace("\n", "\r")}, 1)
    elif kind == "nul":
        _, f, L = sh
        for c in MAIN:
            md = C.build(c)
            for s in S.strings_with_first(f, NUL_ATOMS, L):
                for p in range(len(s) + 1):
                    acc.case()
                    v = s[:p] + "\x00" + s[p:]
                    t = s[:p] + "�" + s[p:]
                    r = same_as_twin(md, t, v, acc, "NUL")
                    if r:
                        acc.violation("nul", r, {"cfg": c, "twin": t, "variant": v}, r)
                acc.sig(("nul", s))
        acc.sample("nul", {"twin": f + "�", "variant": f + "\x00"}, 1)
    elif kind == "tabs-lead":
        _, f, K = sh
        c = MAIN[0]
        md = C.build(c)
        for d in S.docs_with_first(f, tab_lines(), K, both_endings=False):
            if "\t" not in d:
                continue
            acc.case()
            d2 = "\n".join(expand_leading(l) for l in d.split("\n"))
            a = acc.call(md.parse, d)
            b = acc.call(md.parse, d2)
            if a is CRASH or b is CRASH:
                continue
            acc.sig(("lead", tuple(t.type for t in b[:6]), d.count("\t")))
            if sig_tabs(a) != sig_tabs(b):
                acc.violation("tabs-lead", "leading tabs differ from their space expansion",
                              {"cfg": c, "variant": d, "twin": d2}, "tokens differ between the tab and the space spelling")
        acc.sample("tabs-lead", {"variant": f + "\n \t- a\n", "twin": expand_leading(f) + "\n    - a\n"}, 1)
    elif kind == "tabs-docs":
        _, f, K = sh
        c = MAIN[0]
        md = C.build(c)
        if K == 3 and f in DOC_LINES[18:]:
            K = 2
        lines = DOC_LINES if K <= 2 else (DOC_LINES[:18] if K == 3 else DOC_LINES[:12])
        for d in S.docs_with_first(f, lines, K, both_endings=False):
            ref = acc.call(md.parse, d)
            if ref is CRASH:
                continue
            rs = sig_tabs(ref)
            for v in doc_tab_variants(d.rstrip("\n"), 60 if K <= 3 else 30):
                acc.case()
                got = acc.call(md.parse, v + "\n")
                if got is CRASH:
                    continue
                if sig_tabs(got) != rs:
                    acc.violation("tabs-docs", "tab spelling of a structural blank run differs from the space spelling",
                                  {"cfg": c, "variant": v + "\n", "twin": d}, "tokens differ between the tab and the space spelling")
            acc.sig(("docs", d))
        acc.sample("tabs-docs", {"variant": "> - a\n>-\tb\n>\n>   c\n", "twin": "> - a\n>-  b\n>\n>   c\n"}, 1)
    elif kind == "tabs-chain2":
        _run_chain2(sh, acc)
    elif kind == "tabs-chain":
        _, depth, ind0, mk0 = sh
        c = MAIN[0]
        md = C.build(c)
        for segs in chains(depth, [ind0]):
            if segs[1][1] != mk0:
                continue
            for leaf in LEAVES_B:
                sp = "".join(" " * w if k == "b" else w for k, w in segs) + leaf
                ref = acc.call(md.parse, sp + "\n")
                if ref is CRASH:
                    continue
                rs = sig_tabs(ref)
                for t in tab_spellings(segs):
                    line = t + leaf
                    if "\t" not in line:
                        continue
                    acc.case()
                    got = acc.call(md.parse, line + "\n")
                    if got is CRASH:
                        continue
                    if sig_tabs(got) != rs:
                        acc.violation("tabs-chain", f"depth {depth}: tab spelling differs from the space spelling",
                                      {"cfg": c, "variant": line + "\n", "twin": sp + "\n"},
                                      "tokens differ between the tab and the space spelling")
                acc.sig(("chain", sp))
        acc.sample("tabs-chain", {"variant": ">\t- x\n", "twin": ">   - x\n"}, 1)


def _run_chain2(sh, acc):
    _, depth, ind0, mk0, th = sh
    c = MAIN[0]
    md = C.build(c)
    for first in chains(depth, [ind0]):
        if first[1][1] != mk0:
            continue
        if not th and (first[-1][1] not in (1, 2, 4) or any(first[i][1] not in (1, 3) for i in range(2, len(first) - 1, 2))):
            continue  # quick: fewer blank-run widths on the first line
        l1 = "".join(" " * w if k == "b" else w for k, w in first) + "x"
        for segs2 in second_line_segs(first):
            for leaf in LEAVES_2:
                sp2 = "".join(" " * w if k == "b" else w for k, w in segs2) + leaf
                twin = l1 + "\n" + sp2 + "\n"
                ref = acc.call(md.parse, twin)
                if ref is CRASH:
                    continue
                rs = sig_tabs(ref)
                for t in tab_spellings(segs2):
                    l2 = t + leaf
                    if "\t" not in l2:
                        continue
                    acc.case()
                    v = l1 + "\n" + l2 + "\n"
                    got = acc.call(md.parse, v)
                    if got is CRASH:
                        continue
                    if sig_tabs(got) != rs:
                        acc.violation("tabs-chain2", f"depth {depth}: tab spelling on a continuation line differs from the space spelling",
                                      {"cfg": c, "variant": v, "twin": twin}, "tokens differ between the tab and the space spelling")
                acc.sig(("chain2", twin))
    acc.sample("tabs-chain2", {"variant": "> > a\n> >\tb\n", "twin": "> > a\n> > b\n"}, 1)


def check_case(case, acc):
    sub = case["sub"]
    md = C.build(case["cfg"], fresh=True)
    acc.case()
    if sub in ("eol", "nul"):
        r = same_as_twin(md, case["twin"], case["variant"], acc, "line endings" if sub == "eol" else "NUL")
        if r:
            acc.violation(sub, r, {k: case[k] for k in ("cfg", "twin", "variant")}, r)
    else:
        a = acc.call(md.parse, case["variant"])
        b = acc.call(md.parse, case["twin"])
        if a is not CRASH and b is not CRASH and sig_tabs(a) != sig_tabs(b):
            acc.violation(sub, "tab spelling differs from the space spelling", {k: case[k] for k in ("cfg", "twin", "variant")},
                          "tokens differ between the tab and the space spelling")
