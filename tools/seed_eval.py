#!/usr/bin/env python3
"""tools/seed_eval.py <dir with patch.diff and demo.py> [--checks C01,C02,...] [--tier quick]

Confirms an independently written property-breaking change in a scratch copy of /repo (never touches /repo or
/verif/evidence): the pinned suite is still green with the patch, the demonstration fails with it and passes without
it; then runs the requested checks against the patched copy and reports which of them raise a VIOLATION.
Prints one JSON object."""
import argparse
import json
import os
import re
import shutil
import subprocess
import sys
import tempfile

PY = "/venv/bin/python"


def run(cmd, cwd=None, env=None, timeout=3600):
    e = dict(os.environ)
    e.update(env or {})
    p = subprocess.run(cmd, cwd=cwd, env=e, capture_output=True, text=True, timeout=timeout)
    return p.returncode, p.stdout + p.stderr


def suite(root):
    rc, out = run([PY, "-m", "pytest", "-q", "-p", "no:cacheprovider", "tests"], cwd=root, env={"PYTHONPATH": root})
    m = re.search(r"(\d+) failed, (\d+) passed", out)
    m2 = re.search(r"(\d+) passed", out)
    if m:
        return int(m.group(2)), int(m.group(1))
    return (int(m2.group(1)) if m2 else -1), 0


def main():
    ap = argparse.ArgumentParser()
    ap.add_argument("seed")
    ap.add_argument("--checks", default="")
    ap.add_argument("--tier", default="quick")
    a = ap.parse_args()
    seed = os.path.abspath(a.seed)
    d = tempfile.mkdtemp(prefix="seed.", dir="/tmp")
    res = {"seed": seed}
    try:
        for name in ("markdown_it", "tests", "pyproject.toml"):
            src = os.path.join("/repo", name)
            if os.path.isdir(src):
                shutil.copytree(src, os.path.join(d, name), ignore=shutil.ignore_patterns("__pycache__"))
            else:
                shutil.copy(src, d)
        demo = os.path.join(seed, "demo.py")
        rc0, out0 = run([PY, demo], cwd=d, env={"PYTHONPATH": d}, timeout=600)
        res["demo_without_patch_rc"] = rc0
        rc, out = run(["patch", "-s", "-p1", "-i", os.path.join(seed, "patch.diff")], cwd=d)
        if rc:
            res["error"] = "patch does not apply: " + out[:300]
            print(json.dumps(res, indent=1))
            return 3
        res["suite_with_patch"] = suite(d)
        rc1, out1 = run([PY, demo], cwd=d, env={"PYTHONPATH": d}, timeout=600)
        res["demo_with_patch_rc"] = rc1
        res["demo_with_patch_tail"] = out1.strip().splitlines()[-3:]
        res["confirmed"] = (res["suite_with_patch"] == (875, 32) and rc0 == 0 and rc1 != 0)
        res["checks"] = {}
        for cid in [c for c in a.checks.split(",") if c]:
            rc, out = run(["./check", cid, "--tier", a.tier], cwd="/verif",
                          env={"VERIF_REPO": d, "VERIF_OUT": os.path.join(d, "out")}, timeout=7200)
            lines = [l for l in out.splitlines() if l.startswith("  [")]
            res["checks"][cid] = {"rc": rc, "violations": out.count("\nVIOLATION "), "classes": [l.strip()[:200] for l in lines[:6]]}
        print(json.dumps(res, indent=1))
        return 0
    finally:
        shutil.rmtree(d, ignore_errors=True)


if __name__ == "__main__":
    sys.exit(main())
