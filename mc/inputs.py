"""The shared inputs x configurations product used by C01, C02 (and, in parts, C10, C15).
A shard is a JSON-able tuple; iter_shard yields (cfg, src) pairs; the space is the disjoint union of shards."""
from __future__ import annotations

import itertools

from . import configs as C
from . import spaces as S

CM_T = C.cfg("commonmark", enable=["table", "strikethrough"])
JS = C.cfg("js-default")
JS_TL = C.cfg("js-default", {"typographer": True, "linkify": True}, linkify="stub")
ZERO = C.cfg("zero")
CM = C.cfg("commonmark")
MAIN_CFGS = [CM_T, JS]


def core_docs():
    """small core document space used for the configuration neighbourhoods"""
    out = list(S.docs(S.FREE_LINES, 2))
    out += list(S.strings(S.ATOMS, 2))
    out += ["> a|b\n> -|-\n>", "- a\n\n  b\n- c", "1. a\n   ```\n   x", "[a]\n\n[a]: /u 't'\n", "![*x*](u)",
            "\"a\" -- 'b' (c) ...", "~~a~~ **b** http://x.y www.z.w m@n.o", "> - a\n>   b\n> c\n",
            "<div>\n*a*\n</div>\n", "a  \nb\\\nc\n", "|a|b|\n|-|:-:|\n|c|`d|e`|\n", "    a\n\n\tb\n"]
    seen = set()
    res = []
    for d in out:
        if d not in seen:
            seen.add(d)
            res.append(d)
    return res


def block_shards(tier, cfgs, contexts=None, ctx_K=3, free_K=3, leaves=None):
    """contextual + free L-space x the given configurations (used by the block-structure properties)"""
    thorough = tier == "thorough"
    sh = []
    ctxs = contexts if contexts is not None else (S.CONTEXTS if thorough else S.CONTEXTS[:6])
    leaves = leaves or ("small" if thorough else "tiny")
    for P in ctxs:
        lines = S.ctx_lines(P, S.LEAVES_SMALL if leaves == "small" else S.LEAVES_TINY)
        for c in cfgs:
            for f in lines:
                sh.append(("ctx", P, leaves, f, ctx_K, c))
    for c in cfgs:
        for f in S.FREE_LINES:
            sh.append(("free", f, free_K, c))
    return sh


def shards(tier, with_linkify_stub=True):
    sh = []
    thorough = tier == "thorough"
    # contextual L-space
    ctxs = S.CONTEXTS if thorough else S.CONTEXTS[:6]
    leaves = "small" if thorough else "tiny"
    for P in ctxs:
        lines = S.ctx_lines(P, S.LEAVES_SMALL if thorough else S.LEAVES_TINY)
        for c in MAIN_CFGS:
            for f in lines:
                sh.append(("ctx", P, leaves, f, 3, c))
    if thorough:
        # K=4 with the tiny leaf alphabet, two contexts that nest differently
        for P in ["> ", "- "]:
            lines = S.ctx_lines(P, S.LEAVES_TINY)
            for f in lines:
                for g in lines:
                    sh.append(("ctx4", P, f, g, MAIN_CFGS[0]))
    # free L-space
    for c in MAIN_CFGS:
        for f in S.FREE_LINES:
            sh.append(("free", f, 3, c))
    # I-space
    for mi in range(2):
        for f in S.ATOMS:
            sh.append(("inl", "all", f, 3, mi))
        for f in S.ATOMS_CORE:
            sh.append(("inl", "core", f, 5 if thorough else 4, mi))
    # delimiter-run spaces and separator characters
    for f in S.EMPH_ATOMS:
        sh.append(("atoms", "emph", f, 8 if thorough else 7, 0))
        sh.append(("atoms", "emph", f, 7 if thorough else 6, 1))
    for f in S.STRIKE_ATOMS:
        sh.append(("atoms", "strike", f, 7 if thorough else 6, 1))
    for f in S.SEP_LEAVES + S.DEF_LEAVES:
        sh.append(("sep", f))
    # configuration neighbourhoods on the core space
    cfgs = C.neighbourhood(2 if thorough else 1)
    step = 8 if thorough else 4
    for i in range(0, len(cfgs), step):
        sh.append(("cfgs", 2 if thorough else 1, i, min(len(cfgs), i + step)))
    # nesting sweeps
    for kind in S.NEST_KINDS:
        sh.append(("nest", kind))
    # corpus deviations
    n = len(S.corpus_seeds())
    step = 20 if thorough else 60
    for i in range(0, n, step):
        sh.append(("corpus", 1 if thorough else 0, i, min(n, i + step)))
    return sh


INL_CFGS = [CM_T, JS_TL]
NEST_MAX = [1, 2, 3, 20, 100]


def iter_shard(sh):
    """yield (cfg, mode, src); mode in {'doc','inline'} selects parse/render vs parseInline/renderInline"""
    kind = sh[0]
    if kind == "ctx":
        _, P, leaves, f, K, c = sh
        lines = S.ctx_lines(P, S.LEAVES_SMALL if leaves == "small" else S.LEAVES_TINY)
        for d in S.docs_with_first(f, lines, K):
            yield c, "doc", d
    elif kind == "ctx4":
        _, P, f, g, c = sh
        lines = S.ctx_lines(P, S.LEAVES_TINY)
        for d in S.docs_with_first(g, lines, 3):
            yield c, "doc", f + "\n" + d
    elif kind == "free":
        _, f, K, c = sh
        for d in S.docs_with_first(f, S.FREE_LINES, K):
            yield c, "doc", d
    elif kind == "inl":
        _, which, f, L, mi = sh
        atoms = S.ATOMS if which == "all" else S.ATOMS_CORE
        c = INL_CFGS[mi]
        for s in S.strings_with_first(f, atoms, L):
            yield c, "doc", s
            yield c, "inline", s
    elif kind == "atoms":
        _, which, f, L, mi = sh
        atoms = S.EMPH_ATOMS if which == "emph" else S.STRIKE_ATOMS
        c = INL_CFGS[mi]
        for s in S.strings_with_first(f, atoms, L):
            yield c, "doc", s
    elif kind == "sep":
        _, f = sh
        lines = [f] + S.LEAVES_TINY
        for c in MAIN_CFGS:
            for P in ("", "> ", "- "):
                for d in S.docs_with_first(P + f, [P + l for l in lines] + lines, 2):
                    yield c, "doc", d
                for l in S.LEAVES_TINY:
                    yield c, "doc", P + l + "\n" + P + f + "\n"
    elif kind == "cfgs":
        _, d, lo, hi = sh
        cfgs = C.neighbourhood(d)[lo:hi]
        docs = core_docs()
        for c in cfgs:
            for s in docs:
                yield c, "doc", s
    elif kind == "nest":
        _, k = sh
        for mn in NEST_MAX:
            for preset in ("commonmark", "js-default"):
                c = C.cfg(preset, {"maxNesting": mn}, enable=["strikethrough", "table"] if preset == "commonmark" else [])
                if k.startswith("table_") and mn != 20:
                    continue
                for depth in sorted(set(list(range(0, min(mn, 24) + 3)) + [mn - 1, mn, mn + 1, mn + 2, 257, 500, 2000])):
                    if depth < 0:
                        continue
                    yield c, "doc", S.nest(k, depth)
    elif kind == "corpus":
        _, dev, lo, hi = sh
        seeds = S.corpus_seeds()[lo:hi]
        for c in (CM_T, JS_TL):
            for seed in seeds:
                if dev == 0:
                    for i in range(len(seed) + 1):
                        yield c, "doc", seed[:i]
                else:
                    for v in S.deviations1(seed):
                        yield c, "doc", v
    else:
        raise KeyError(kind)


def describe(tier):
    thorough = tier == "thorough"
    return {
        "L_contextual": {"contexts": S.CONTEXTS if thorough else S.CONTEXTS[:6], "K": 3,
                         "leaves": S.LEAVES_SMALL if thorough else S.LEAVES_TINY,
                         "K4_contexts_tiny_leaves": ["> ", "- "] if thorough else []},
        "L_free": {"lines": S.FREE_LINES, "K": 3},
        "I_delimiter_runs": {"emphasis_atoms": S.EMPH_ATOMS, "L": 8 if thorough else 7, "strike_atoms": S.STRIKE_ATOMS,
                             "L_strike": 7 if thorough else 6},
        "separator_leaves": S.SEP_LEAVES,
        "I": {"atoms_all": S.ATOMS, "L_all": 3, "atoms_core": S.ATOMS_CORE, "L_core": 5 if thorough else 4},
        "configs": {"d": 2 if thorough else 1, "count": len(C.neighbourhood(2 if thorough else 1)),
                    "core_docs": len(core_docs())},
        "nesting": {"kinds": S.NEST_KINDS, "maxNesting": NEST_MAX, "extra_depths": [500, 2000]},
        "corpus": {"seeds": len(S.corpus_seeds()), "deviation_bound": 1 if thorough else 0},
    }
