"""C19 - typographic replacements are local to text and never touch structure or literals."""
from __future__ import annotations

import itertools
import re

from .. import configs as C
from ..core import CRASH

ID = "C19"
LEVEL = "exploration"
RULE = ("every string of <=3 (thorough 4) atoms over a 36-atom typographic alphabet (quotes, escaped quotes, entity "
        "quotes, code spans, links with titles, raw HTML, autolinks with quotes, (c) -- ... +- !!!! line breaks) x "
        "{replacements, smartquotes, both} x 4 quote option shapes (4-char string, lists with multi-character, empty "
        "and NBSP strings) x {commonmark, js-default, commonmark html off}: the stream with the typographer on has the "
        "same shape as with it off (every field of every token except the content of text tokens; text inside "
        "autolinks and every non-text token byte-identical); with text_join disabled every text_special token is "
        "identical and, for smartquotes alone, every text content matches the pattern obtained from the off-content "
        "by replacing each straight quote with {itself, a configured quote string, apostrophe}. Non-trivial = input "
        "containing a quote or a replaceable sequence; distinct = distinct (rule set, quotes, on-stream text).")

ATOMS = ["a", " ", '"', "'", "*", "`", "[", "](u 't')", '\\"', "&quot;", "<b>", "<http://a'b>", "(c)", "--", "...", "\n",
         "1", ".", "!!!!", "+-", "\\'", "<a href=\"x'y\">", "(tm) ", "[l](u)", "<http://x/(c)--y...z(tm)>",
         # an opening quote left unmatched in one block, a later block; a whole code span; entity-spelled letters
         "\"a\n\n", "'a\n\n> ", "`c`", "*b*", "(&#99;)", "(&#x54;m)", "&#99;", "&#45;&#45;",
         # a word-final unmatched quote, a quoted word, an e-mail autolink with replaceable text
         "a' ", "\"b\"", "<o'b--c...d@e.f>"]
QUOTES = ["“”‘’", ["<<", ">>", "<", ""], "abcd", ["« ", " »", "‹ ", " ›"]]
BASES = [("commonmark", {}), ("js-default", {}), ("commonmark", {"html": False})]
MODES = [("both", ["replacements", "smartquotes"]), ("sq", ["smartquotes"]), ("repl", ["replacements"])]


def shape(tokens, in_auto=None):
    out = []
    auto = 0
    for t in tokens:
        d = t.as_dict(children=False)
        # an autolink is recognised by either of its marks (info "auto", markup "autolink" / "linkify")
        if t.type == "link_open" and (t.info == "auto" or t.markup in ("autolink", "linkify")):
            auto += 1
        if t.type == "link_close" and (t.info == "auto" or t.markup in ("autolink", "linkify")):
            auto -= 1
        if t.type == "text" and not auto:
            d["content"] = None
        if t.type == "inline":
            d["content"] = None  # the raw source is the same by construction; children carry the text
        d["children"] = shape(t.children) if t.children is not None else None
        out.append(d)
    return out


def texts(tokens, out, kind="text"):
    for t in tokens:
        if t.type == kind:
            out.append(t.content)
        if t.children:
            texts(t.children, out, kind)
    return out


_mds = {}


def mds(bi, qi):
    k = (bi, qi)
    if k not in _mds:
        from markdown_it import MarkdownIt

        preset, o = BASES[bi]
        off = MarkdownIt(preset, dict(o))
        off_nj = MarkdownIt(preset, dict(o)).disable("text_join")
        on = {}
        for name, rules in MODES:
            oo = dict(o)
            oo.update({"typographer": True, "quotes": QUOTES[qi]})
            m = MarkdownIt(preset, oo).enable(rules)
            m.disable([r for r in ("replacements", "smartquotes") if r not in rules])
            m2 = MarkdownIt(preset, oo).enable(rules).disable("text_join")
            m2.disable([r for r in ("replacements", "smartquotes") if r not in rules])
            on[name] = (m, m2)
        q = QUOTES[qi]
        alts = "|".join(re.escape(x) for x in sorted(set(list(q) + ["’", "'", '"']), key=len, reverse=True))
        _mds[k] = (off, off_nj, on, alts)
    return _mds[k]


def one(bi, qi, s, acc):
    off, off_nj, on, alts = mds(bi, qi)
    a = acc.call(off.parse, s)
    if a is CRASH:
        return None
    sa = shape(a)
    nontrivial = any(x in s for x in ('"', "'", "(c)", "--", "...", "+-", "!!!!", "(tm)"))
    for name, (m, m_nj) in on.items():
        b = acc.call(m.parse, s)
        if b is CRASH:
            continue
        if nontrivial:
            acc.sig((name, qi, tuple(texts(b, []))))
        if shape(b) != sa:
            return f"{name}: typographer changes the shape of the stream or a non-text token", name
        a2 = acc.call(off_nj.parse, s)
        b2 = acc.call(m_nj.parse, s)
        if a2 is CRASH or b2 is CRASH:
            continue
        if shape(a2) != shape(b2):
            return f"{name}: typographer changes the shape of the stream (text_join off)", name
        if texts(a2, [], "text_special") != texts(b2, [], "text_special"):
            return f"{name}: a character written as escape/entity was rewritten", name
        if name == "sq":
            for x, y in zip(texts(a2, []), texts(b2, [])):
                pat = "".join(("(?:%s)?" % alts if ch in "'\"" else re.escape(ch)) for ch in x)
                if not re.fullmatch(pat, y, re.S):
                    return f"sq: smartquotes changed text other than straight quotes: {x!r} -> {y!r}", name
    return None


ENT = {"&#99;": "c", "&#x54;": "T", "&#45;": "-"}
# the twin spells an inert private-use character as a reference too, so token boundaries and the source characters
# next to the reference ('&', ';') are the same in both
PUA = {"&#99;": ("&#xE000;", "\ue000"), "&#x54;": ("&#xE001;", "\ue001"), "&#45;": ("&#xE002;", "\ue002")}


def entity_inert(bi, qi, s, acc):
    """a character written as a character reference is never rewritten: replacing the reference by an inert
    private-use character and substituting it back afterwards must give the same rendering (letters and digits
    only, whose neighbourhood class for the quote rules equals that of the placeholder)"""
    if not any(e in s for e in ENT) or any(ch in s for ch in "`<"):
        return None  # inside code spans, autolinks and raw HTML references are not decoded at all
    off, off_nj, on, alts = mds(bi, qi)
    m = on["repl"][0]
    twin = s
    for e, (ref, ch) in PUA.items():
        if ENT[e].isalnum():
            twin = twin.replace(e, ref)
    if twin == s:
        return None
    a = acc.call(m.render, s)
    b = acc.call(m.render, twin)
    if a is CRASH or b is CRASH:
        return None
    for e, (ref, ch) in PUA.items():
        b = b.replace(ch, ENT[e])
    if a != b:
        return f"repl: a character written as a reference takes part in a replacement: {a!r} vs {b!r}"
    return None


# ---- the configured quote strings are the ones in force NOW: quotes changed on a used instance, by every route -----
REQUOTE_DOCS = ["\"a\" 'b' \"c 'd' e\"\n", "'x' \"y\"", "\"", "it's \"so\"\n\n> 'q'\n"]
ROUTES = ["setitem", "setattr", "update", "set"]


def _set_quotes(md, q, route):
    if route == "setitem":
        md.options["quotes"] = q
    elif route == "setattr":
        md.options.quotes = q
    elif route == "update":
        md.options.update({"quotes": q})
    else:
        md.set({**dict(md.options), "quotes": q})  # (set() replaces the whole options object)


def requote_case(bi, qa, qb, route, doc, acc):
    from markdown_it import MarkdownIt

    preset, o = BASES[bi]
    oo = dict(o)
    oo.update({"typographer": True, "quotes": QUOTES[qa]})
    live = MarkdownIt(preset, oo).enable(["replacements", "smartquotes"])
    acc.call(live.render, doc)
    _set_quotes(live, QUOTES[qb], route)
    got = acc.call(live.render, doc)
    oo["quotes"] = QUOTES[qb]
    exp = acc.call(MarkdownIt(preset, oo).enable(["replacements", "smartquotes"]).render, doc)
    if got is CRASH or exp is CRASH:
        return None
    if got != exp:
        return f"quotes changed by {route} on a used instance: output {got!r} differs from a fresh instance with these quotes {exp!r}"
    return None


def bounds(tier):
    return {"atoms": ATOMS, "L": 4 if tier == "thorough" else 3, "quotes": QUOTES, "bases": BASES, "modes": MODES,
            "requote_histories": {"docs": REQUOTE_DOCS, "routes": ROUTES, "what": "render, change quotes (every ordered pair of quote sets) by each route, render again; compared with a fresh instance"}}


def shards(tier):
    th = tier == "thorough"
    sh = []
    for bi in range(len(BASES)):
        for qi in range(len(QUOTES)):
            if not th and bi == 2 and qi > 1:
                continue
            for f in ATOMS:
                sh.append(("t", bi, qi, f, 3 if th else 2))
    for bi in range(len(BASES)):
        sh.append(("requote", bi))
    return sh


def run_shard(sh, acc):
    if sh[0] == "requote":
        bi = sh[1]
        for qa in range(len(QUOTES)):
            for qb in range(len(QUOTES)):
                for route in ROUTES:
                    for doc in REQUOTE_DOCS:
                        acc.case()
                        r = requote_case(bi, qa, qb, route, doc, acc)
                        if r:
                            acc.violation("requote", "quotes changed on a used instance are not the ones applied",
                                          {"base": bi, "qa": qa, "qb": qb, "route": route, "doc": doc}, r)
        acc.sample("requote", {"base": bi, "qa": 0, "qb": 1, "route": "setitem", "doc": REQUOTE_DOCS[0]}, 1)
        return
    _, bi, qi, f, rem = sh
    for k in range(0, rem + 1):
        for combo in itertools.product(ATOMS, repeat=k):
            s = f + "".join(combo)
            acc.case()
            r = one(bi, qi, s, acc)
            if not r:
                e = entity_inert(bi, qi, s, acc)
                if e:
                    r = (e, "repl")
            if r:
                acc.violation("typo", (r[0].split(": {")[0].split(": '")[0][:90]) if "->" not in r[0] else "sq: smartquotes changed text other than straight quotes",
                              {"base": bi, "quotes": qi, "s": s}, r[0])
    acc.sample("typo", {"base": BASES[bi], "quotes": QUOTES[qi], "s": f + "\"a\" 'b' -- (c)"}, 1)


def check_case(case, acc):
    acc.case()
    if case.get("sub") == "requote":
        r = requote_case(case["base"], case["qa"], case["qb"], case["route"], case["doc"], acc)
        if r:
            acc.violation("requote", "quotes changed on a used instance are not the ones applied",
                          {k: case[k] for k in ("base", "qa", "qb", "route", "doc")}, r)
        return
    r = one(case["base"], case["quotes"], case["s"], acc)
    if not r:
        e = entity_inert(case["base"], case["quotes"], case["s"], acc)
        if e:
            r = (e, "repl")
    if r:
        acc.violation("typo", (r[0].split(": {")[0].split(": '")[0][:90]) if "->" not in r[0] else "sq: smartquotes changed text other than straight quotes",
                      {k: case[k] for k in ("base", "quotes", "s")}, r[0])
