"""Generic shared-heap fingerprint (DESIGN.md 2.5): a deterministic canonical hash of everything mutable that
outlives a call - the given instances, the module dictionaries of markdown_it.* and mdurl.*, class dictionaries,
function defaults / closures / attributes, functools caches."""
from __future__ import annotations

import functools
import hashlib
import re
import sys
import types

PKGS = ("markdown_it", "mdurl")
ATOM = (str, int, float, bytes, bool, type(None), re.Pattern, types.CodeType, types.ModuleType,
        types.BuiltinFunctionType, type(Ellipsis), complex, range, frozenset)


def roots_modules():
    return [m for n, m in sorted(sys.modules.items()) if m is not None and (n.split(".")[0] in PKGS)]


def _walker(ignore_ids=()):
    ids = {}
    keep = []

    def rank(o):
        i = id(o)
        if i in ids:
            return ids[i], False
        ids[i] = len(ids)
        keep.append(o)
        return ids[i], True

    def _has(c):
        try:
            c.cell_contents
            return True
        except ValueError:
            return False

    def walk(o):
        if isinstance(o, ATOM):
            if isinstance(o, (types.ModuleType, types.CodeType, types.BuiltinFunctionType, re.Pattern)):
                return ("A", type(o).__name__,
                        getattr(o, "__name__", None) or getattr(o, "pattern", None) or getattr(o, "co_name", None))
            return ("a", repr(o))
        if id(o) in ignore_ids:
            return ("ignored",)
        r, new = rank(o)
        if not new:
            return ("ref", r)
        if isinstance(o, dict):
            return ("dict", r, tuple((walk(k), walk(v)) for k, v in o.items()))
        if isinstance(o, (list, tuple)):
            return (type(o).__name__, r, tuple(walk(x) for x in o))
        if isinstance(o, set):
            return ("set", r, tuple(sorted(repr(walk(x)) for x in o)))
        if isinstance(o, types.FunctionType):
            mod = getattr(o, "__module__", "") or ""
            if mod.split(".")[0] not in PKGS:
                return ("fn-ext", o.__qualname__)
            cl = tuple(walk(c.cell_contents) for c in (o.__closure__ or ()) if _has(c))
            return ("fn", r, o.__qualname__, walk(o.__defaults__), walk(o.__kwdefaults__), cl, walk(o.__dict__))
        if isinstance(o, types.MethodType):
            return ("meth", walk(o.__func__), walk(o.__self__))
        if isinstance(o, functools._lru_cache_wrapper):
            return ("lru", o.__qualname__, o.cache_info().currsize)
        if isinstance(o, type):
            if (o.__module__ or "").split(".")[0] not in PKGS:
                return ("type-ext", o.__qualname__)
            d = {k: v for k, v in vars(o).items() if not (k.startswith("__") and k.endswith("__"))
                 or k in ("__cache__", "__rules__")}
            return ("type", r, o.__qualname__, tuple((k, walk(v)) for k, v in sorted(d.items(), key=lambda kv: kv[0])))
        if isinstance(o, (property, staticmethod, classmethod, types.MemberDescriptorType, types.GetSetDescriptorType,
                          types.WrapperDescriptorType, types.MethodDescriptorType)):
            return ("desc", type(o).__name__)
        if (type(o).__module__ or "").split(".")[0] not in PKGS:
            # instances of foreign classes (logging.Logger with its level cache, a linkifier, ...) are leaves
            return ("obj-ext", type(o).__qualname__)
        parts = []
        if hasattr(o, "__dict__"):
            parts.append(("d", walk(vars(o))))
        for cls in type(o).__mro__:
            for s in getattr(cls, "__slots__", ()) or ():
                if isinstance(s, str) and hasattr(o, s):
                    try:
                        parts.append((s, walk(getattr(o, s))))
                    except Exception:
                        pass
        if not parts:
            return ("obj", type(o).__qualname__)
        return ("inst", r, type(o).__qualname__, tuple(parts))

    return walk, ids


def fingerprint(instances, with_modules=True, detail=False):
    """returns (sha1, n_objects) ; detail=True returns the per-root canonical forms for diffing"""
    old = sys.getrecursionlimit()
    sys.setrecursionlimit(max(old, 20000))
    try:
        walk, ids = _walker()
        res = []
        for inst in instances:
            res.append(("instance", walk(inst)))
        if with_modules:
            for m in roots_modules():
                d = {k: v for k, v in vars(m).items() if not k.startswith("__")}
                res.append((m.__name__, tuple((k, walk(v)) for k, v in sorted(d.items()))))
        if detail:
            return res
        s = repr(res)
        return hashlib.sha1(s.encode()).hexdigest(), len(ids)
    finally:
        sys.setrecursionlimit(old)


def diff(a, b, limit=5):
    """human-readable first differences between two detail fingerprints"""
    out = []
    for (na, fa), (nb, fb) in zip(a, b):
        if fa != fb:
            ra, rb = repr(fa), repr(fb)
            i = 0
            while i < min(len(ra), len(rb)) and ra[i] == rb[i]:
                i += 1
            out.append(f"{na}: ...{ra[max(0, i - 60):i + 60]!r} vs ...{rb[max(0, i - 60):i + 60]!r}")
            if len(out) >= limit:
                break
    return out


def mutable_ids(root, stop_ids=frozenset()):
    """ids (with a description) of the mutable container/instance objects reachable from `root` through
    attributes and items, not descending into modules, classes or functions and not into objects in stop_ids"""
    out = {}
    seen = set()
    stack = [(root, type(root).__name__)]
    while stack:
        o, path = stack.pop()
        if isinstance(o, ATOM) or isinstance(o, (types.FunctionType, types.MethodType, type, functools._lru_cache_wrapper)):
            if isinstance(o, types.MethodType):
                stack.append((o.__self__, path + ".__self__"))
            continue
        i = id(o)
        if i in seen or i in stop_ids:
            continue
        seen.add(i)
        if isinstance(o, dict):
            out[i] = path
            for k, v in o.items():
                stack.append((v, f"{path}[{k!r}]"))
        elif isinstance(o, (list, set)):
            out[i] = path
            for n, v in enumerate(o):
                stack.append((v, f"{path}[{n}]"))
        elif isinstance(o, tuple):
            for n, v in enumerate(o):
                stack.append((v, f"{path}[{n}]"))
        else:
            if (type(o).__module__ or "").split(".")[0] not in PKGS:
                continue
            out[i] = path
            if hasattr(o, "__dict__"):
                for k, v in vars(o).items():
                    stack.append((v, f"{path}.{k}"))
            for cls in type(o).__mro__:
                for sl in getattr(cls, "__slots__", ()) or ():
                    if isinstance(sl, str) and hasattr(o, sl):
                        stack.append((getattr(o, sl), f"{path}.{sl}"))
    return out


def module_level_ids():
    """ids of the mutable objects reachable from the package's module and class dictionaries (shared by design)"""
    out = set()
    for m in roots_modules():
        for k, v in vars(m).items():
            if k.startswith("__"):
                continue
            out |= set(mutable_ids(v))
            if isinstance(v, type) and (v.__module__ or "").split(".")[0] in PKGS:
                for kk, vv in vars(v).items():
                    if not (kk.startswith("__") and kk.endswith("__")):
                        out |= set(mutable_ids(vv))
    return out
