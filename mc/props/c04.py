"""C04 - with raw HTML off the output is well-formed and contains only renderer-made markup."""
from __future__ import annotations

import itertools
import re

from .. import configs as C
from .. import spaces as S
from ..core import CRASH

ID = "C04"
LEVEL = "exploration"
RULE = ("metacharacter-heavy inline atom strings (L<=3 under every html=False configuration within d toggles of a "
        "preset, L<=4 under kitchen-sink configurations), slot templates (every syntactic slot filled with every "
        "pair of metacharacter fills) and free line-shape documents; the rendered output must be accepted by an "
        "independent strict tokenizer (fixed tag/attribute vocabulary, proper nesting, only &amp; &lt; &gt; &quot; "
        "entities, no raw < > \" & in text or attribute values) and must contain the independently escaped content "
        "of every text/code token and attribute, in order. Non-trivial = output contains at least one escaped "
        "metacharacter; distinct = distinct outputs (hashed).")
ASSUMPTIONS = ["default HTML renderer, no highlight callback", "linkify paths use the stub linkifier"]

VOID = {"br", "hr", "img"}
TAGS = {"p", "h1", "h2", "h3", "h4", "h5", "h6", "blockquote", "ul", "ol", "li", "pre", "code", "em", "strong", "s",
        "a", "img", "br", "hr", "table", "thead", "tbody", "tr", "th", "td"}
ATTRS = {"href", "title", "src", "alt", "start", "class", "style"}
TOK = re.compile(r'<(/?)([a-zA-Z][a-zA-Z0-9]*)((?: [a-zA-Z-]+="[^"<>]*")*)( /)?>|([^<>"&]+)|&(amp|lt|gt|quot);')
ATTR = re.compile(r' ([a-zA-Z-]+)="([^"<>]*)"')
RAWAMP = re.compile(r"&(?!(?:amp|lt|gt|quot);)")


def grammar(html):
    pos = 0
    stack = []
    n = len(html)
    while pos < n:
        m = TOK.match(html, pos)
        if not m:
            return f"not renderer markup at {html[pos:pos + 16]!r}"
        pos = m.end()
        if m.group(2):
            close, name, attrs, slash = m.group(1), m.group(2), m.group(3), m.group(4)
            if name not in TAGS:
                return f"tag <{name}> outside the vocabulary"
            for a, v in ATTR.findall(attrs or ""):
                if a not in ATTRS:
                    return f"attribute {a} outside the vocabulary"
                if RAWAMP.search(v):
                    return "raw & in attribute value"
            if close:
                if attrs or slash:
                    return "closing tag with attributes"
                if not stack or stack[-1] != name:
                    return f"misnested </{name}>"
                stack.pop()
            elif name in VOID:
                pass
            else:
                if slash:
                    return f"self-closed non-void <{name}>"
                stack.append(name)
    if stack:
        return f"unclosed <{stack[-1]}>"
    return None


def esc(s):
    return s.replace("&", "&amp;").replace("<", "&lt;").replace(">", "&gt;").replace('"', "&quot;")


def flow(tokens, html):
    """the escaped content of every text/code token and attribute occurs in the output, in order"""
    pos = 0

    def need(frag, what):
        nonlocal pos
        i = html.find(frag, pos)
        if i < 0:
            return f"escaped {what} not found in output in order"
        pos = i + len(frag)
        return None

    def walk(toks):
        for t in toks:
            if t.hidden and t.type in ("paragraph_open", "paragraph_close"):
                continue
            if t.type in ("definition",):
                continue
            if t.type != "fence" and t.nesting >= 0:
                for k, v in (t.attrs or {}).items():
                    if t.type == "image" and k == "alt":
                        continue
                    r = need(f' {esc(k)}="{esc(str(v))}"', f"attribute of {t.type}")
                    if r:
                        return r
            if t.type in ("text", "code_inline", "code_block", "fence") and t.content:
                r = need(esc(t.content), f"content of {t.type}")
                if r:
                    return r
            elif t.type == "inline":
                r = walk(t.children or [])
                if r:
                    return r
        return None

    return walk(tokens)


# ---- inputs --------------------------------------------------------------------------------------------
ATOMS = ["a", " ", "*", "_", "`", "[", "]", "(", ")", "!", "<", ">", "\\", "&", "&amp;", "#", ";", '"', "'", "\n", "~~",
         "|", "-", ":", "/", "http", "=", "&#60;", "x y"]
FILL = ["a", "<", ">", "&", '"', "'", "&amp;", "&#60;", "<b>", "<!--", "]]>", "\x00", "&quot;", "\\<", "*", " "]
TEMPLATES = ["X", "`X`", "``X``", "```X\nb\n```\n", "``` a X\nb\n```\n", "~~~ X\nb\n", "```\nX\n```\n", "    X\n",
             "[X](u)", "[a](X)", "[a](<X>)", "[a](u \"X\")", "[a](u 'X')", "[a](u (X))", "![X](u)", "![a](X)",
             "![a](u \"X\")", "![![X](v)](u)", "[a]: X\n\n[a]\n", "[a]: u \"X\"\n\n[a]\n", "[X]: u\n\n[X]\n",
             "[a]: <X> 'X'\n\n![a]\n", "|X|\n|-|\n|X|\n", "|a|\n|:X-:|\n", "|a|b|\n|:-|-:|\n|X|X|\n", "# X\n", "X\n===\n",
             "X\n---\n", "<http://X>", "<X@a.b>", "<mailto:X>", "<X>", "<a href=\"X\">", "<a X=\"y\">", "<!--X-->",
             "<?X?>", "<![CDATA[X]]>", "<div X>\na\n</div>\n", "&X;", "&#X;", "~~X~~", "*X*", "**X**", "> X\n",
             "- X\n", "2. X\n", "123456789. X\n", "http://a/X", "www.a.b/X", "x@y.z X", "\"X\"", "'X'", "X  \nX\\\nX\nX",
             "-X-\n\n(c) X ... -- +-X",
             # attribute values that span lines (title, alt with a soft break), metacharacters on the later line
             "[a](u \"b\nX\")", "[a](u 'b\nc\nX')", "![b\nX](u)", "![b\nc X](u \"d\nX\")", "[a]: u \"b\nX\"\n\n[a]\n",
             "[a]: u\n 'b\n X'\n\n![a]\n",
             # destinations that pass the data:image whitelist, with metacharacters after the prefix
             "[a](data:image/png;X)", "![a](data:image/gif;X)", "<data:image/jpeg;X>", "[a]: data:image/webp;X\n\n[a]\n",
             "[a](<data:image/png;X> \"X\")", "![X](DATA:IMAGE/PNG;X)",
             # code whose text looks like the renderer's own wrapper (what a highlighter may return verbatim)
             "```\n<pre>X</pre>\n```\n", "```\n<pre X\n</pre>\n```\n", "~~~ js\n<pre><code>X</code></pre>\n~~~\n",
             "    <pre>X</pre>\n", "`<pre>X</pre>`", "```\n<pre>\nX\n</pre>\n\n```\n", "> ```\n> <pre>X</pre>\n"]

_KITCHEN_OPTS = {"html": False, "typographer": True, "quotes": ["<", ">", "&", "\""], "langPrefix": "<&\" x",
                 "xhtmlOut": True, "breaks": True, "store_labels": True, "linkify": True}


def kitchen():
    out = []
    for p in ("commonmark", "js-default", "zero"):
        en = [] if p == "js-default" else C.RULE_SW
        out.append(C.cfg(p, _KITCHEN_OPTS, enable=en, linkify="stub"))
        o = dict(_KITCHEN_OPTS)
        o.update({"inline_definitions": True, "xhtmlOut": False, "breaks": False, "quotes": "<>&\""})
        out.append(C.cfg(p, o, enable=en, linkify="stub"))
    # html switched off after construction, by each public route (the instance was built with html on)
    on = {"html": True, "typographer": True, "linkify": True}
    for route in (["setitem", "html", False], ["setattr", "html", False], ["update", {"html": False}]):
        out.append(C.cfg("commonmark", on, enable=C.RULE_SW, linkify="stub", post=[["render_first", "<b>x</b>\n\n<div>\n"], route]))
    out.append(C.cfg("js-default", {"html": True}, post=[["setitem", "html", False]]))
    # another instance of the same preset was constructed before with html switched on through options_update:
    # the shared preset must not remember it
    for pset in ("js-default", "zero", "commonmark"):
        rest = {"linkify": False, "typographer": False, "breaks": False, "xhtmlOut": False, "langPrefix": "language-",
                "quotes": "“”‘’", "maxNesting": 20, "highlight": None}
        if pset == "commonmark":
            rest["html"] = False
        # (every option except html is given explicitly, so only a remembered html=True can change the outcome)
        out.append(dict(C.cfg(pset, rest, enable=["table"]), pre=[["construct", pset, {"html": True}]]))
    # core pipeline rules off one at a time (any rule subset): output must still be renderer-made markup
    for r in ("inline", "block", "normalize", "linkify", "replacements"):
        out.append(C.cfg("js-default", {"html": False, "typographer": True}, post=[["core_disable", r]]))
        out.append(C.cfg("commonmark", {"html": False}, enable=["table"], post=[["core_disable", r]]))
    return out


def hood(d):
    return [c for c in C.neighbourhood(d, base_opts={"html": False}) if not (c.get("opts") or {}).get("html")]


def bounds(tier):
    th = tier == "thorough"
    return {"atoms": ATOMS, "L_hood": "2 (thorough: 3 on the d<=1 neighbourhood)", "L_kitchen": "5/4" if th else "4 on two configurations, 3 on the others", "fills": FILL, "fill_pairs": len(FILL) ** 2 + len(FILL),
            "templates": TEMPLATES, "free_lines_K": 2, "d": 2 if th else 1, "hood_configs": len(hood(2 if th else 1)),
            "kitchen_configs": kitchen(),
            "delimiter_runs": {"strike_atoms": S.STRIKE_ATOMS, "emph_link_atoms": S.EMPH_ATOMS + ["[", "](u)"],
                               "L": 7 if th else 6, "config": DELIM_CFG}}


def shards(tier):
    th = tier == "thorough"
    d = 2 if th else 1
    sh = []
    H = hood(d)
    step = 6
    for i in range(0, len(H), step):
        sh.append(("hood", d, i, min(len(H), i + step), 2))
    if th:  # L=3 atoms only on the d<=1 hood in thorough (d<=2 hood gets L=2 + templates + lines)
        H1 = hood(1)
        for i in range(0, len(H1), 4):
            sh.append(("hood", 1, i, min(len(H1), i + 4), 3))
    for ki in range(len(kitchen())):
        for f in ATOMS:
            sh.append(("kitchen", ki, f, (5 if ki < 2 else 4) if th else (4 if ki < 2 else 3)))
        sh.append(("ktempl", ki))
    # delimiter-run spaces (post-processing that reorders or splits tokens): strikethrough and emphasis runs around
    # links, html off
    for f in S.STRIKE_ATOMS:
        sh.append(("delim", "strike", f, 7 if th else 6))
    for f in S.EMPH_ATOMS + ["[", "](u)"]:
        sh.append(("delim", "emph", f, 7 if th else 6))
    return sh


DELIM_CFG = C.cfg("js-default", {"html": False})
EMPH_LINK_ATOMS = S.EMPH_ATOMS + ["[", "](u)"]


def fills():
    for f in FILL:
        yield f
    for a, b in itertools.product(FILL, repeat=2):
        yield a + b


def _iter(sh):
    k = sh[0]
    if k == "hood":
        _, d, lo, hi, L = sh
        docs = list(S.strings(ATOMS, L)) + [t.replace("X", f) for t in TEMPLATES for f in FILL] + \
            list(S.docs(S.FREE_LINES, 2))
        for c in hood(d)[lo:hi]:
            for s in docs:
                yield c, s
    elif k == "kitchen":
        _, ki, f, L = sh
        c = kitchen()[ki]
        for s in S.strings_with_first(f, ATOMS, L):
            yield c, s
    elif k == "delim":
        _, which, f, L = sh
        for s in S.strings_with_first(f, S.STRIKE_ATOMS if which == "strike" else EMPH_LINK_ATOMS, L):
            yield DELIM_CFG, s
    elif k == "ktempl":
        c = kitchen()[sh[1]]
        for t in TEMPLATES:
            for f in fills():
                yield c, t.replace("X", f)
        for s in S.docs(S.FREE_LINES, 2):
            yield c, s


def _one(md, src, acc):
    env = {}
    toks = acc.call(md.parse, src, env)
    if toks is CRASH:
        return None
    out = acc.call(md.renderer.render, toks, md.options, env)
    if out is CRASH:
        return None
    if "&" in out:
        acc.sig(out)
    r = grammar(out)
    if r is None:
        r = flow(toks, out)
    return r


def _cls(r):
    return re.sub(r" at .*", "", r)[:60]


def check_case(case, acc):
    md = C.build(case["cfg"], fresh=True)
    acc.case()
    r = _one(md, case["src"], acc)
    if r:
        acc.violation(case["sub"], _cls(r), {"cfg": case["cfg"], "src": case["src"]}, r)


def run_shard(sh, acc):
    first = True
    for c, src in _iter(sh):
        md = C.build(c)
        acc.case()
        if first:
            acc.sample(sh[0], {"cfg": c, "src": src})
            first = False
        r = _one(md, src, acc)
        if r:
            acc.violation(sh[0], _cls(r), {"cfg": c, "src": src}, r)
