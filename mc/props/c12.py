"""C12 - a parse depends only on configuration, source and env: explicit-state search over API-call histories.

Every execution (history) runs in a child process forked from the check's master process, which only ever imports
the package and never calls it: each history therefore starts from the pristine module state, and so does every
reference computation."""
from __future__ import annotations

import copy
import hashlib
import itertools
import json

from .. import heapwalk
from ..forkpool import fork_map
from ..core import NPROC

ID = "C12"
LEVEL = "model_checking"
SERIAL = True
RULE = ("explicit-state breadth-first search over histories of public API calls on up to two live instances "
        "(construct with 5 presets/option sets incl. a caller-owned dict preset; parse/render/parseInline/"
        "renderInline of pool documents with env omitted / persistent; enable/disable; option writes by item and "
        "attribute route; add_render_rule; use(plugin)); state key = generic heap fingerprint of the instances and "
        "of every markdown_it/mdurl module, class and function object (plus persistent env contents); each "
        "transition is executed in a process forked from a master that never calls the library. After every "
        "transition every live instance is probed on the whole document pool (tokens, HTML, env, parseInline) and "
        "must equal the probe of an identically configured instance built in a pristine process; other instances' "
        "fingerprints, caller-owned preset dicts and the shared presets must be unchanged. Independently all "
        "ordered pairs (thorough: triples) of pool documents are run on one instance. states/transitions are "
        "counted by the search; distinct_nontrivial = distinct states.")
ASSUMPTIONS = ["a process forked from a parent that only imported the package is as pristine as a new interpreter",
               "linkify paths are not part of the operation alphabet (optional dependency absent)"]

POOL = [
    "[r] [r2] ![a] [b][c] [R][]\n",
    "*a* **b** `c` ~~d~~\n",
    "> q\n> - l\n>   m\n\n1. x\n2. y\n",
    "[x](y \"t\") ![i](j) <http://é.com>\n",
    "[r] [R][] [s][r]\n\n[r]: /u 'é'\n",
    "|a|b|\n|-|:-:|\n|c|`d`|\n",
    "```py\nx\n```\n\n    code\n",
    "\"q\" -- 'r' (c) ... &amp; \\* &#x41;\n",
    "- a\n\t- b\n\n\t  c\n",
    "[[[[a]]]] ((((b)))) ****c**** [d](((e)))\n",
    "# h\n\nt\n===\n\n***\n<div>\n*x*\n</div>\n",
    "[r2]: /v\n[r2]: /w\n\n[r2] ![r2]\n",
    "a  \nb\\\nc\nd\n",
    "> lazy\ncontinuation\n> > deeper\nstill\n",
    "![*a* [b](c) `d`](e 'f')\n",
    "<a href=\"x\">y</a> <!-- c --> <?p?> <![CDATA[z]]>\n",
    "1) a\n\n   b\n2) c\n- - d\n",
    "~~~ js x=1\n<&>\n~~~\n",
    "&nbsp; &#0; &#xD800; &bogus; &amp;amp;\n",
    "*a **b* c** _d __e_ f__\n",
    "[a]: <b c> (t\nu)\n\n[a]\n",
    "| x | y |\n|---|---|\n| \\| | `|` |\n",
    "\\\n\\a\\\\\n",
    "http://plain.example www.x.y\n",
    "* * *\n- - -\n_ _ _\n",
    "   ```\n   aaa\n  aaa\n ```\n",
    "[link](</my uri> 'ti\"tle')\n",
    "<http://a.b/c?d=e&f=g#h> <me@x.y>\n",
    "a\n\n\n\nb\n\n",
    "- [ ] x\n- [x] y\n",
    "Setext\nwith *em*\n---\n",
    "> ```\n> q\n\nafter\n",
    "1. a\n1. b\n\n\n1. c\n",
    "`` ` `` ` `` ` a\n",
    "[a][b][c]\n\n[b]: /1\n[c]: /2\n",
    "\x00 \r\n\tx\r",
]
POOL_QUICK = POOL[:12]

NEWS = [("commonmark", None), ("js-default", None), ("zero", None), ("commonmark", {"html": False, "typographer": True}),
        ("DICT", None), ("js-default", {"typographer": True, "breaks": True})]


def dict_preset():
    return {
        "options": {"maxNesting": 20, "html": True, "linkify": False, "typographer": False, "quotes": "“”‘’",
                    "xhtmlOut": True, "breaks": False, "langPrefix": "language-", "highlight": None},
        "components": {"core": {"rules": ["normalize", "block", "inline", "text_join"]},
                       "block": {"rules": ["blockquote", "code", "fence", "heading", "hr", "list", "reference",
                                           "paragraph"]},
                       "inline": {"rules": ["backticks", "emphasis", "entity", "escape", "image", "link", "newline",
                                            "text"],
                                  "rules2": ["balance_pairs", "emphasis", "fragments_join"]}},
    }


def _upper_text(self, tokens, idx, options, env):
    return tokens[idx].content.upper()


def _plugin_mark(md):
    def mark(state):
        from markdown_it.token import Token

        t = Token("html_block", "", 0)
        t.content = "<!--mark-->\n"
        state.tokens.append(t)

    md.core.ruler.push("mark", mark)


class World:
    def __init__(self):
        self.md = {}
        self.env = {}
        self.desc = {}
        self.dicts = {}

    def apply(self, op, pool):
        from markdown_it import MarkdownIt

        k = op[0]
        i = op[1]
        if k == "new":
            preset, opts = NEWS[op[2]]
            if preset == "DICT":
                d = dict_preset()
                self.dicts[i] = (d, copy.deepcopy(d))
                self.md[i] = MarkdownIt(d, opts)
            else:
                self.dicts.pop(i, None)
                self.md[i] = MarkdownIt(preset, opts)
            self.env[i] = {}
            self.desc[i] = [list(op)]
            return
        if k == "set_from":
            # the public set() / configure() given another live instance's options object
            j = op[2]
            if op[3] == "set":
                self.md[i].set(self.md[j].options)
            else:
                self.md[i].configure({"options": self.md[j].options, "components": {}})
            self.desc[i] = self.desc[i] + [["set_opts_like", 0, json.dumps(dict(self.md[j].options), sort_keys=True, default=str)]]
            return
        if k == "call_deep":
            # the caller's stack is already deep: the parse dies with RecursionError somewhere in the middle,
            # the caller catches it and goes on using the instance
            _deep_call(self.md[i], pool[op[2]], op[3])
            return
        if k == "edit_tokens":
            # a caller post-processes the tokens it got back (token API), e.g. adds classes / ids
            toks = self.md[i].parse(pool[op[2]])
            for t in toks:
                for x in [t] + list(t.children or []):
                    if x.nesting >= 0 and x.type != "text":
                        x.attrJoin("class", "edited")
                        x.meta["seen"] = True
            return
        md = self.md[i]
        if k == "scoped":
            # a temporary reconfiguration inside the documented reset_rules() block: nothing of it may remain
            with md.reset_rules():
                md.disable(op[2])
                md.render(pool[op[3]])
            return
        if k == "call":
            _, _, meth, di, mode = op
            f = getattr(md, meth)
            if mode == "omit":
                f(pool[di])
            elif mode == "fresh":
                f(pool[di], {})
            else:
                f(pool[di], self.env[i])
            return
        self.desc[i].append(list(op))
        apply_config(md, op)


def _deep_call(md, doc, margin):
    import sys

    def rec(n):
        if n <= 0:
            try:
                md.render(doc)
            except RecursionError:
                pass
            return
        rec(n - 1)

    # leave `margin` frames of head room below the interpreter's limit
    depth = sys.getrecursionlimit() - len(_stack()) - margin
    try:
        rec(max(0, depth))
    except RecursionError:
        pass


def _stack():
    import sys

    out = []
    f = sys._getframe()
    while f is not None:
        out.append(f)
        f = f.f_back
    return out


def apply_config(md, op):
    k = op[0]
    if k == "set_opts_like":
        md.set({kk: vv for kk, vv in json.loads(op[2]).items()})
        return
    if k == "enable":
        md.enable(op[2])
    elif k == "disable":
        md.disable(op[2])
    elif k == "setopt":
        _, _, route, name, val = op
        if route == "item":
            md.options[name] = val
        else:
            setattr(md.options, name, val)
    elif k == "rrule":
        md.add_render_rule(op[2], _upper_text)
    elif k == "use":
        md.use(_plugin_mark)
    else:
        raise KeyError(k)


def build_from_desc(desc):
    from markdown_it import MarkdownIt

    preset, opts = NEWS[desc[0][2]]
    md = MarkdownIt(dict_preset() if preset == "DICT" else preset, opts)
    for op in desc[1:]:
        apply_config(md, tuple(op))
    return md


def probe_one(md, d):
    try:
        toks = [t.as_dict() for t in md.parse(d)]
        e = {}
        html = md.render(d, e)
        inl = [t.as_dict() for t in md.parseInline(d)]
        html2 = md.render(d)
        return (toks, html, e, inl, html2)
    except Exception as ex:  # crashes are C01's business, but they must at least be history-independent
        return ("EXC", type(ex).__name__)


def probe(md, pool, detail=False):
    """all pool documents in sequence on the live instance"""
    out = [probe_one(md, d) for d in pool]
    if detail:
        return out
    return hashlib.sha1(repr(out).encode()).hexdigest()


def _ref_one(job):
    desc, d = job
    return probe_one(build_from_desc(json.loads(desc)), d)


def reference_probe(desc, pool, detail=False):
    """every pool document alone, each on its own fresh instance in its own pristine process"""
    res = dict(fork_map(_ref_one, [(desc, d) for d in pool], 2))
    out = []
    for i in range(len(pool)):
        if res[i][0] != "ok":
            raise RuntimeError("reference probe failed: " + str(res[i][1])[:300])
        out.append(res[i][1])
    if detail:
        return out
    return hashlib.sha1(repr(out).encode()).hexdigest()


def presets_digest():
    from markdown_it import main, presets

    s = repr(main._PRESETS) + repr([presets.commonmark.make(), presets.default.make(), presets.zero.make(),
                                    presets.gfm_like.make()])
    return hashlib.sha1(s.encode()).hexdigest()


def slots_after(hist):
    s = set()
    for op in hist:
        if op[0] == "new":
            s.add(op[1])
    return s


def make_ops(tier, pool):
    th = tier == "thorough"
    ops = []
    slots = (0, 1)
    for i in slots:
        for ni in range(len(NEWS)):
            ops.append(("new", i, ni))
    for i in slots:
        for di in range(len(pool)):
            ops.append(("call", i, "render", di, "omit"))
            ops.append(("call", i, "render", di, "persist"))
        for di in (1, 4):
            ops.append(("call", i, "parse", di, "omit"))
            ops.append(("call", i, "parseInline", di, "persist"))
            ops.append(("call", i, "renderInline", di, "fresh"))
        ops.append(("enable", i, ["table", "strikethrough"]))
        ops.append(("disable", i, ["emphasis"]))
        ops.append(("disable", i, ["reference", "link"]))
        ops.append(("disable", i, ["code"]))
        ops.append(("enable", i, ["code"]))
        ops.append(("setopt", i, "item", "breaks", True))
        ops.append(("setopt", i, "attr", "html", False))
        ops.append(("setopt", i, "item", "typographer", True))
        ops.append(("setopt", i, "attr", "quotes", "abcd"))
        ops.append(("setopt", i, "item", "inline_definitions", True))
        ops.append(("rrule", i, "text"))
        ops.append(("use", i, "mark"))
    for di in (2, 8):
        for margin in range(8, 46, 3):  # the fault lands in every phase of the call, also inside nested containers
            ops.append(("call_deep", 0, di, margin))
    for i in slots:
        for di in (3, 5, 6):
            ops.append(("edit_tokens", i, di))
        ops.append(("scoped", i, ["emphasis", "hr"], 1))
        ops.append(("scoped", i, ["strikethrough", "link", "table"], 4))
    ops.append(("set_from", 1, 0, "set"))
    ops.append(("set_from", 0, 1, "set"))
    ops.append(("set_from", 1, 0, "configure"))
    return ops


def enabled(hist, op):
    s = slots_after(hist)
    if op[0] == "new":
        # second instance only once a first exists (symmetry reduction: slot 1 is never created first)
        return op[1] == 0 or 0 in s
    if op[0] == "set_from":
        return op[1] in s and op[2] in s
    return op[1] in s


# ---- executed in forked children ----------------------------------------------------------------------------
def exec_transition(job):
    hist, op, pool = job
    w = World()
    for o in hist:
        w.apply(tuple(o), pool)
    other_before = {}
    for j, m in w.md.items():
        if j != op[1]:
            other_before[j] = heapwalk.fingerprint([m], with_modules=False)[0]
    w.apply(tuple(op), pool)
    fp, nobj = heapwalk.fingerprint([w.md[j] for j in sorted(w.md)], with_modules=True)
    key = (fp, tuple(sorted(w.md)), json.dumps({str(j): e for j, e in sorted(w.env.items())}, sort_keys=True, default=str))
    errs = []
    for j, b in other_before.items():
        if j in w.md and op[0] != "new":
            if heapwalk.fingerprint([w.md[j]], with_modules=False)[0] != b:
                errs.append(("isolation", j, f"operation {op} on instance {op[1]} changed instance {j}"))
    for j, (d, snap) in w.dicts.items():
        if d != snap:
            errs.append(("dict", j, "the caller's preset dictionary was modified"))
    # no mutable object may be reachable from two live instances (other than what the package shares by design
    # at module/class level): configuring one would configure the other
    if len(w.md) > 1:
        shared_ok = heapwalk.module_level_ids()
        ids = {j: heapwalk.mutable_ids(m, shared_ok) for j, m in w.md.items()}
        js = sorted(ids)
        for a in js:
            for b in js:
                if a < b:
                    common = set(ids[a]) & set(ids[b])
                    if common:
                        where = sorted(ids[a][x] for x in common)[:3]
                        errs.append(("aliasing", b, f"instances {a} and {b} share mutable objects: {where}"))
    pd = presets_digest()
    digests = {j: (json.dumps(w.desc[j]), probe(w.md[j], pool)) for j in sorted(w.md)}
    return key, digests, errs, pd, nobj


def exec_reference(job):
    desc, pool = job
    return reference_probe(desc, pool), presets_digest()


def exec_detail(job):
    kind, payload, pool = job
    if kind == "ref":
        return reference_probe(payload, pool, detail=True)
    hist, slot = payload
    w = World()
    for o in hist:
        w.apply(tuple(o), pool)
    out = None
    for j in sorted(w.md):  # same probe order as exec_transition
        r = probe(w.md[j], pool, detail=True)
        if j == slot:
            out = r
    return out


def exec_seq(job):
    ni, seq, pool = job
    from markdown_it import MarkdownIt

    w = World()
    w.apply(("new", 0, ni), pool)
    for di in seq:
        w.md[0].render(pool[di])
    return probe(w.md[0], pool), presets_digest()


# ---- search (runs in the pristine master) -------------------------------------------------------------------
_explained = [0]


def explain(hist, slot, desc, pool):
    _explained[0] += 1
    if _explained[0] > 12:
        return "probe digest differs from the pristine reference (details computed for the first 12 only; replay for details)"
    res = dict(fork_map(exec_detail, [("hist", (hist, slot), pool), ("ref", desc, pool)], 2))
    a, b = res[0], res[1]
    if a[0] != "ok" or b[0] != "ok":
        return f"could not explain: {a} {b}"[:300]
    for di, (x, y) in enumerate(zip(a[1], b[1])):
        if x != y:
            if x[0] == "EXC" or y[0] == "EXC":
                return f"probe document {di} {pool[di]!r}: {x[:2]} vs pristine {y[:2]}"
            for name, p, q in zip(("tokens", "html", "env", "parseInline", "html (env omitted)"), x, y):
                if p != q:
                    sp, sq = str(p), str(q)
                    i = 0
                    while i < min(len(sp), len(sq)) and sp[i] == sq[i]:
                        i += 1
                    lo = max(0, i - 40)
                    return (f"probe document {di} {pool[di]!r}: {name} differs at ...{sp[lo:i + 80]!r}, "
                            f"pristine instance gives ...{sq[lo:i + 80]!r}")
    return "digests differ but details equal (nondeterminism?)"


def search(tier, acc):
    th = tier == "thorough"
    pool = POOL if th else POOL_QUICK
    ops = make_ops(tier, pool)
    max_depth = 3 if th else 2
    max_states = 8000 if th else 3000
    refs = {}
    pristine_pd = None
    seen = {}
    # initial states: one freshly constructed instance (every history has to start with a construction)
    frontier = [[["new", 0, ni]] for ni in range(len(NEWS))]
    trans = 0
    depth_done = 0
    capped = False
    sampled = 0
    for depth in range(max_depth):
        jobs = [(h, op, pool) for h in frontier for op in ops if enabled(h, op)]
        nxt = []
        results = {}
        for idx, res in fork_map(exec_transition, jobs, NPROC):
            results[idx] = res
        # references needed
        need = set()
        for idx, res in results.items():
            if res[0] == "ok":
                for j, (desc, dg) in res[1][1].items():
                    if desc not in refs:
                        need.add(desc)
        need = sorted(need)
        for idx, res in fork_map(exec_reference, [(d, pool) for d in need], NPROC):
            if res[0] != "ok":
                raise RuntimeError("reference computation failed: " + str(res[1])[:300])
            refs[need[idx]] = res[1][0]
            if pristine_pd is None:
                pristine_pd = res[1][1]
        for idx in range(len(jobs)):
            h, op, _ = jobs[idx]
            res = results[idx]
            trans += 1
            hist = h + [list(op)]
            if res[0] != "ok":
                # an exception from an API call in the history itself (e.g. a crash) - C01's business unless it
                # only happens after some history, which the probe comparison would show; count and move on
                acc.count("transitions_raising")
                continue
            key, digests, errs, pd, nobj = res[1]
            acc.maxi("heap_objects_walked", nobj)
            for kind, j, msg in errs:
                acc.violation(kind, msg.split(" on instance")[0].split(":")[0][:60], {"history": hist, "slot": j, "tier": tier}, msg)
            if pristine_pd is not None and pd != pristine_pd:
                acc.violation("presets", "shared presets changed", {"history": hist, "tier": tier},
                              "main._PRESETS / presets.*.make() differ from their pristine values after this history")
            for j, (desc, dg) in digests.items():
                if dg != refs[desc]:
                    msg = explain(hist, j, desc, pool)
                    acc.violation("probe", "probe differs from a pristine identically configured instance",
                                  {"history": hist, "slot": j, "tier": tier}, msg)
            if key not in seen:
                seen[key] = hist
                nxt.append(hist)
                if sampled < 3 and len(hist) >= 2:
                    acc.sample("history", {"history": hist})
                    sampled += 1
        depth_done = depth + 1
        frontier = nxt
        if len(seen) > max_states:
            capped = True
            break
        if not frontier:
            break
    acc.case(trans)
    acc.count("states", len(seen) + 1)
    acc.count("transitions", trans)
    acc.count("traces_validated_against_impl", trans)
    acc.count("reference_configurations", len(refs))
    acc.maxi("depth_completed", depth_done)
    acc.count("state_cap_hit", 1 if capped else 0)
    acc.count("frontier_left_unexpanded", len(frontier))
    for k in seen:
        acc.sig(k)
    return refs


def sequences(tier, acc):
    th = tier == "thorough"
    pool = POOL if th else POOL_QUICK
    n = len(pool)
    seqs = [(a, b) for a in range(n) for b in range(n)]
    if th:
        sub = range(0, n, 2)
        seqs += [(a, b, c) for a in sub for b in sub for c in sub]
    jobs = []
    for ni in (0, 5):
        for s in seqs:
            jobs.append((ni, s, pool))
    ref = {}
    for idx, res in fork_map(exec_reference, [(json.dumps([["new", 0, ni]]), pool) for ni in (0, 5)], 2):
        ref[(0, 5)[idx]] = res[1]
    bad = 0
    for idx, res in fork_map(exec_seq, jobs, NPROC):
        ni, s, _ = jobs[idx]
        acc.case()
        acc.count("transitions")
        acc.count("traces_validated_against_impl")
        if res[0] != "ok":
            acc.count("transitions_raising")
            continue
        if res[1] != ref[ni]:
            hist = [["new", 0, ni]] + [["call", 0, "render", di, "omit"] for di in s]
            msg = explain(hist, 0, json.dumps([["new", 0, ni]]), pool)
            acc.violation("sequence", "probe after a document sequence differs from pristine",
                          {"history": hist, "slot": 0, "tier": tier}, msg)
    acc.sample("sequence", {"new": NEWS[0], "docs": [pool[1], pool[4]]}, 1)


def bounds(tier):
    th = tier == "thorough"
    pool = POOL if th else POOL_QUICK
    return {"pool_documents": len(pool), "operations": len(make_ops(tier, pool)), "instances": 2,
            "depth_after_first_construction": 3 if th else 2, "state_cap": 8000 if th else 3000, "news": NEWS,
            "initial_constructions": list(range(len(NEWS))),
            "sequences": "all ordered pairs" + (" + all ordered triples over every second pool document" if th else "")}


def shards(tier):
    return [("search", tier)]


def run_shard(sh, acc):
    search(sh[1], acc)
    sequences(sh[1], acc)


def check_case(case, acc):
    tier = case.get("tier", "quick")
    pool = POOL if tier == "thorough" else POOL_QUICK
    hist = case["history"]
    acc.case()
    res = dict(fork_map(exec_transition, [(hist[:-1], hist[-1], pool)], 1))[0]
    if res[0] != "ok":
        return
    key, digests, errs, pd, nobj = res[1]
    for kind, j, msg in errs:
        acc.violation(kind, msg.split(" on instance")[0].split(":")[0][:60], {"history": hist, "slot": j, "tier": tier}, msg)
    for j, (desc, dg) in digests.items():
        r = dict(fork_map(exec_reference, [(desc, pool)], 1))[0]
        if r[0] == "ok" and r[1][0] != dg:
            acc.violation(case["sub"] if case["sub"] in ("probe", "sequence") else "probe",
                          "probe differs from a pristine identically configured instance" if case["sub"] != "sequence"
                          else "probe after a document sequence differs from pristine",
                          {"history": hist, "slot": j, "tier": tier}, explain(hist, j, desc, pool))
        if r[0] == "ok" and r[1][1] != pd:
            acc.violation("presets", "shared presets changed", {"history": hist, "tier": tier},
                          "main._PRESETS / presets.*.make() differ from their pristine values after this history")
