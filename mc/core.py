"""Common machinery: binding to the code under test, accumulators, sharded exhaustive runner,
known findings, evidence and replay files.  See DESIGN.md section 2."""
from __future__ import annotations

import concurrent.futures as cf
import importlib
import json
import multiprocessing as mp
import os
import random
import re
import signal
import sys
import time

VERIF = os.path.dirname(os.path.dirname(os.path.abspath(__file__)))
REPO = os.path.realpath(os.environ.get("VERIF_REPO", "/repo"))
OUT = os.environ.get("VERIF_OUT", VERIF)  # evidence/ and replays/ go here (mutation runs use a scratch dir)
NPROC = int(os.environ.get("VERIF_NPROC", "16"))
HANG_S = float(os.environ.get("VERIF_HANG_S", "10"))
_bound = False


def bind():
    """Make `import markdown_it` resolve to the working tree under REPO; abort (exit 2) otherwise."""
    global _bound
    if _bound:
        return
    sys.dont_write_bytecode = True
    if REPO in sys.path:
        sys.path.remove(REPO)
    sys.path.insert(0, REPO)
    import markdown_it  # noqa

    f = os.path.realpath(markdown_it.__file__)
    if not f.startswith(REPO + os.sep):
        sys.stderr.write(f"MACHINERY-ERROR: markdown_it imported from {f}, not from {REPO}\n")
        sys.exit(2)
    # the interpreter's default recursion limit (1000) is kept: it is what library users run with
    _bound = True


class TooManyHangs(BaseException):
    """a shard in which library calls keep hanging is abandoned (hangs are C01's verdicts; the other checks only
    have to stay fast)"""


class HangTimeout(BaseException):
    """Raised by the SIGALRM watchdog inside a library call that made no progress for HANG_S seconds."""


def _on_alarm(signum, frame):
    raise HangTimeout()


CRASH = object()


# ---------------------------------------------------------------------------------------------------
# known findings

_findings = None


def load_findings():
    global _findings
    if _findings is None:
        p = os.path.join(VERIF, "known_findings.json")
        try:
            with open(p) as fh:
                _findings = json.load(fh).get("findings", [])
        except FileNotFoundError:
            _findings = []
    return _findings


def match_finding(prop, sub, cls, case):
    for i, e in enumerate(load_findings()):
        if e["property"] != prop:
            continue
        if "sub" in e and e["sub"] != sub:
            continue
        if "cls" in e and not re.search(e["cls"], cls):
            continue
        ok = True
        for field, rx in e.get("match", {}).items():
            v = case.get(field)
            if v is None or not re.search(rx, v if isinstance(v, str) else json.dumps(v)):
                ok = False
                break
        if ok:
            return i
    return None


# ---------------------------------------------------------------------------------------------------
# accumulator (one per shard, merged by the master)


class Acc:
    def __init__(self, prop):
        self.prop = prop
        self.evaluations = 0
        self.sigs = set()
        self.viol = {}  # (sub, cls) -> [count, case, msg]
        self.known = {}  # finding index -> [count, case]
        self.skipped_crash = 0
        self.skipped_hang = 0
        self.samples = {}
        self.counters = {}
        self.maxes = {}
        self.sets = {}

    # -- library calls ------------------------------------------------------------------------------
    def call(self, fn, *a, **k):
        """Run a library call; crashes and hangs are C01's business: counted and skipped elsewhere."""
        signal.setitimer(signal.ITIMER_REAL, HANG_S)
        try:
            return fn(*a, **k)
        except HangTimeout:
            self.skipped_hang += 1
            if self.skipped_hang >= 3:
                raise TooManyHangs()
            return CRASH
        except Exception:
            self.skipped_crash += 1
            return CRASH
        finally:
            signal.setitimer(signal.ITIMER_REAL, 0)

    # -- bookkeeping --------------------------------------------------------------------------------
    def case(self, n=1):
        self.evaluations += n

    def sig(self, s):
        self.sigs.add(hash(s))

    def count(self, name, n=1):
        self.counters[name] = self.counters.get(name, 0) + n

    def maxi(self, name, v):
        if v > self.maxes.get(name, float("-inf")):
            self.maxes[name] = v

    def add(self, name, v):
        self.sets.setdefault(name, set()).add(v)

    def sample(self, sub, case, limit=2):
        l = self.samples.setdefault(sub, [])
        if len(l) < limit:
            l.append(case)

    def violation(self, sub, cls, case, msg):
        case = dict(case)
        case["sub"] = sub
        k = match_finding(self.prop, sub, cls, case)
        size = len(json.dumps(case, default=str))
        if k is not None:
            e = self.known.get(k)
            if e is None:
                self.known[k] = [1, case, size]
            else:
                e[0] += 1
                if size < e[2]:
                    e[1], e[2] = case, size
            return
        key = (sub, cls)
        e = self.viol.get(key)
        if e is None:
            self.viol[key] = [1, case, msg, size]
        else:
            e[0] += 1
            if size < e[3]:
                e[1], e[2], e[3] = case, msg, size

    def merge(self, o):
        self.evaluations += o.evaluations
        self.sigs |= o.sigs
        self.skipped_crash += o.skipped_crash
        self.skipped_hang += o.skipped_hang
        for k, v in o.viol.items():
            e = self.viol.get(k)
            if e is None:
                self.viol[k] = list(v)
            else:
                e[0] += v[0]
                if v[3] < e[3]:
                    e[1], e[2], e[3] = v[1], v[2], v[3]
        for k, v in o.known.items():
            e = self.known.get(k)
            if e is None:
                self.known[k] = list(v)
            else:
                e[0] += v[0]
                if v[2] < e[2]:
                    e[1], e[2] = v[1], v[2]
        for k, v in o.samples.items():
            l = self.samples.setdefault(k, [])
            for c in v:
                if len(l) < 2:
                    l.append(c)
        for k, v in o.counters.items():
            self.counters[k] = self.counters.get(k, 0) + v
        for k, v in o.maxes.items():
            self.maxi(k, v)
        for k, v in o.sets.items():
            self.sets.setdefault(k, set()).update(v)


# ---------------------------------------------------------------------------------------------------
# runner


def _worker_init():
    bind()
    signal.signal(signal.SIGALRM, _on_alarm)


def _run_shard(args):
    modname, shard = args
    mod = importlib.import_module(modname)
    acc = Acc(mod.ID)
    t0 = time.time()
    try:
        mod.run_shard(shard, acc)
    except TooManyHangs:
        acc.counters["shards_abandoned_after_hangs"] = 1
    acc.counters["shard_cpu_s_x1000"] = int((time.time() - t0) * 1000)
    return acc


def run_check(mod, tier):
    bind()
    seed = int(os.environ.get("VERIF_SEED", "0"))
    t0 = time.time()
    shards = list(mod.shards(tier))
    random.Random(seed).shuffle(shards)  # the seed only permutes shard order; nothing is sampled
    total = Acc(mod.ID)
    nproc = min(NPROC, max(1, len(shards)))
    if getattr(mod, "SERIAL", False) or nproc == 1:
        _worker_init()
        for sh in shards:
            total.merge(_run_shard((mod.__name__, sh)))
    else:
        ctx = mp.get_context("fork")
        with cf.ProcessPoolExecutor(nproc, mp_context=ctx, initializer=_worker_init) as ex:
            futs = [ex.submit(_run_shard, (mod.__name__, sh)) for sh in shards]
            try:
                for f in cf.as_completed(futs):
                    total.merge(f.result())
            except cf.process.BrokenProcessPool:
                sys.stderr.write("MACHINERY-ERROR: a worker process died\n")
                sys.exit(2)
    wall = time.time() - t0
    return finish(mod, tier, seed, total, len(shards), wall)


def finish(mod, tier, seed, total, nshards, wall):
    os.makedirs(os.path.join(OUT, "replays"), exist_ok=True)
    os.makedirs(os.path.join(OUT, "evidence"), exist_ok=True)
    findings = load_findings()
    for old in os.listdir(os.path.join(OUT, "replays")):
        if old.startswith(mod.ID + "-") or old.startswith("KNOWN-" + mod.ID + "-"):
            os.unlink(os.path.join(OUT, "replays", old))  # witnesses of earlier runs of this check
    lines = []
    n = 0
    for (sub, cls), (cnt, case, msg, _size) in sorted(total.viol.items(), key=lambda kv: (kv[0][0], kv[0][1])):
        n += 1
        path = os.path.join(OUT, "replays", f"{mod.ID}-{n}.json")
        with open(path, "w") as fh:
            json.dump({"property": mod.ID, "sub": sub, "cls": cls, "count": cnt, "case": case, "message": msg},
                      fh, indent=1, default=str, ensure_ascii=True)
        lines.append(f"VIOLATION property={mod.ID} replay={path}")
        sys.stderr.write(f"  [{sub}] {cls} x{cnt}: {msg}\n    case={json.dumps(case, default=str)[:400]}\n")
    known_hit = []
    for k, (cnt, case, _size) in sorted(total.known.items()):
        e = findings[k]
        print(f"KNOWN-FINDING: property={mod.ID} {e['what']} (x{cnt}, e.g. {json.dumps(case, default=str)[:160]})")
        known_hit.append({"what": e["what"], "count": cnt})
        # smallest witness of the listed finding, replayable with ./check replay (reports the raw verdict)
        with open(os.path.join(OUT, "replays", f"KNOWN-{mod.ID}-{k}.json"), "w") as fh:
            json.dump({"property": mod.ID, "sub": case.get("sub"), "cls": "known finding", "count": cnt, "case": case,
                       "message": e["what"]}, fh, indent=1, default=str, ensure_ascii=True)
    cov = {
        "evaluations": total.evaluations,
        "distinct_nontrivial": len(total.sigs),
        "rule": mod.RULE,
        "samples": [c for sub in sorted(total.samples) for c in total.samples[sub]][:12],
        "exhaustive": True,
        "shards": nshards,
        "skipped_crash": total.skipped_crash,
        "skipped_hang": total.skipped_hang,
        "known_findings_hit": known_hit,
        "counters": {k: v for k, v in sorted(total.counters.items()) if k != "shard_cpu_s_x1000"},
        "maxima": dict(sorted(total.maxes.items())),
        "set_sizes": {k: len(v) for k, v in sorted(total.sets.items())},
        "cpu_s": round(total.counters.get("shard_cpu_s_x1000", 0) / 1000, 1),
    }
    if hasattr(mod, "bounds"):
        cov["bounds"] = mod.bounds(tier)
    if mod.LEVEL == "model_checking":
        cov["states"] = total.counters.get("states", 0)
        cov["transitions"] = total.counters.get("transitions", 0)
        cov["traces_validated_against_impl"] = total.counters.get(
            "traces_validated_against_impl", total.counters.get("transitions", 0))
        cov["explanation"] = ("exploration runs on the real implementation objects, so every explored "
                              "transition is an implementation trace; no separate model")
    ev = {
        "property_id": mod.ID,
        "tier": tier,
        "seed": seed,
        "level": mod.LEVEL,
        "coverage": cov,
        "assumptions": list(getattr(mod, "ASSUMPTIONS", [])) + [
            f"code under test imported from {REPO}",
            "bounded-exhaustive: nothing outside the stated alphabets and bounds is decided",
        ],
        "wall_s": round(wall, 2),
        "violations": len(lines),
    }
    with open(os.path.join(OUT, "evidence", f"{mod.ID}.json"), "w") as fh:
        json.dump(ev, fh, indent=1, default=str)
    print(f"{mod.ID} tier={tier} seed={seed} evaluations={total.evaluations} distinct={len(total.sigs)} "
          f"skipped_crash={total.skipped_crash} skipped_hang={total.skipped_hang} "
          f"counters={cov['counters']} wall={wall:.1f}s")
    for l in lines:
        print(l)
    return 1 if lines else 0


def replay_file(path):
    bind()
    signal.signal(signal.SIGALRM, _on_alarm)
    with open(path) as fh:
        rec = json.load(fh)
    mod = importlib.import_module("mc.props." + rec["property"].lower())
    outs = []
    for _ in range(2):  # replay twice: observations must be identical before a failure is trusted
        acc = Acc(mod.ID)
        _findings_backup = load_findings()[:]
        load_findings().clear()  # replay reports the raw oracle verdict, listed or not
        try:
            mod.check_case(rec["case"], acc)
        finally:
            load_findings().extend(_findings_backup)
        outs.append(sorted((k[0], k[1], v[2]) for k, v in acc.viol.items()))
    # the verdict (sub-check, violation class) must reproduce; measured numbers inside a message may differ
    if [x[:2] for x in outs[0]] != [x[:2] for x in outs[1]]:
        sys.stderr.write(f"MACHINERY-ERROR: nondeterministic replay {outs}\n")
        return 2
    if outs[0]:
        for sub, cls, msg in outs[0]:
            print(f"  [{sub}] {cls}: {msg}")
        print(f"VIOLATION property={rec['property']} replay={path}")
        return 1
    print(f"replay {path}: property holds on this witness (not reproduced)")
    return 0
