"""C08 - verbatim content and recorded markup come from the source, unaltered."""
from __future__ import annotations

import itertools
import re

from .. import configs as C
from .. import inputs as I
from .. import spaces as S
from ..core import CRASH

ID = "C08"
LEVEL = "exploration"
RULE = ("(a3) fences / indented code / HTML blocks with multi-line bodies in 7 container shapes after 9 preambles of "
        "the same container, exact expected content; (a4) the column-exact quote lines again after preambles that "
        "make the block parser scan the line twice; (a2) two-line indented code blocks whose second line re-enters the same quote/list containers with every "
        "spelling of every blank run (depth 1 fully, depth 2 with one of the two lines in canonical spelling); "
        "(a) column-exact: every line made of <=2 (thorough 3) container segments (marker in >, ' >', '   >', -, 1., "
        "' -', 10)) x every blank run over 11 space/tab spellings x payloads, expected content from an independent "
        "CommonMark column model; (b) every code_block/fence/html_block token of the contextual and free line-shape "
        "documents: each content line is a suffix-preserving image of its source line, removed head is blanks and "
        "container markers only, line counts match the map; (c) all strings of <=5 (thorough 6) atoms over "
        "{`,``,a,space,LF,NBSP,VT,*,[} against an independent backtick scanner; (d) recorded markup/info of "
        "fence/heading/lheading/hr/list/quote tokens against their own source lines. Non-trivial = a verbatim or "
        "markup-bearing token was checked; distinct = distinct (kind, content/markup, source line) triples.")

CFGS = [C.cfg("commonmark"), C.cfg("js-default")]


# ---- (a) independent column model ---------------------------------------------------------------------
def cols(s, start=0):
    c = start
    for ch in s:
        c = c + (4 - c % 4) if ch == "\t" else c + 1
    return c


def strip_cols(line, origin):
    """characters of `line` from absolute column `origin` on; a tab straddling it becomes spaces"""
    c = 0
    for i, ch in enumerate(line):
        if c >= origin:
            return line[i:]
        if ch == "\t":
            nc = c + (4 - c % 4)
            if nc > origin:
                return " " * (nc - origin) + line[i + 1:]
            c = nc
        else:
            c += 1
    return ""


MARK = [">", " >", "   >", "-", "1.", " -", "10)"]
WS = [" ", "\t", "  ", " \t", "\t ", "   ", "    ", "\t\t", "     ", "  \t", "      "]
PAYLOADS = ["x", "x\ty", "x  z "]


def build(depth, first_mark=None):
    def rec(prefix, origin, d):
        if d == 0:
            yield prefix, origin
            return
        for mk in ([first_mark] if (first_mark is not None and not prefix) else MARK):
            for ws in WS:
                ind = len(mk) - len(mk.lstrip(" "))
                pc = cols(prefix)
                lead = (pc - origin) + ind
                if lead > 3:
                    continue
                if prefix and ind:
                    continue
                mend = cols(prefix + mk)
                total = cols(prefix + mk + ws)
                w = total - mend
                if mk.strip() == ">":
                    org = mend + 1
                else:
                    org = total if 1 <= w <= 4 else mend + 1
                yield from rec(prefix + mk + ws, org, d - 1)

    yield from rec("", 0, depth)


def col_case(md, line, origin, pc, payload, acc):
    toks = acc.call(md.parse, line + "\n")
    if toks is CRASH:
        return None
    rel = pc - origin
    if rel >= 4:
        cb = [t for t in toks if t.type == "code_block"]
        exp = strip_cols(line, origin + 4) + "\n"
        if len(cb) != 1:
            return "expected one indented code block"
        acc.sig(("code", cb[0].content, line))
        if cb[0].content != exp:
            return f"code content {cb[0].content!r} != column model {exp!r}"
    else:
        inl = [t for t in toks if t.type == "inline"]
        if len(inl) != 1:
            return "expected one paragraph"
        acc.sig(("para", inl[0].content, line))
        if inl[0].content != payload.strip():
            return f"paragraph content {inl[0].content!r} != {payload.strip()!r}"
    return None


# ---- (a2) two-line code blocks: the second line re-enters the same containers with its own spelling -------------
def build_segs(depth, marks, wss):
    """like build(), but also returns the container structure: list of ('q'|'l', width) per segment"""
    def rec(prefix, origin, d, segs):
        if d == 0:
            yield prefix, origin, segs
            return
        for mk in marks:
            for ws in wss:
                ind = len(mk) - len(mk.lstrip(" "))
                pc = cols(prefix)
                lead = (pc - origin) + ind
                if lead > 3 or (prefix and ind):
                    continue
                mend = cols(prefix + mk)
                total = cols(prefix + mk + ws)
                w = total - mend
                if mk.strip() == ">":
                    yield from rec(prefix + mk + ws, mend + 1, d - 1, segs + [("q", 0)])
                else:
                    org = total if 1 <= w <= 4 else mend + 1
                    yield from rec(prefix + mk + ws, org, d - 1, segs + [("l", org - origin)])

    yield from rec("", 0, depth, [])


def blank_spellings(c, k):
    """all spellings with spaces and tabs of a blank run that starts at column c and ends exactly at column c+k"""
    if k == 0:
        yield ""
        return
    for r in blank_spellings(c + 1, k - 1):
        yield " " + r
    nxt = c + (4 - c % 4)
    if nxt <= c + k:
        for r in blank_spellings(nxt, c + k - nxt):
            yield "\t" + r


def second_lines(segs, quote_indents=(0, 1, 3), extra=(4, 5, 7), canonical=False):
    """every spelling of a second line that continues the containers `segs` and then an indented code line;
    yields (line, code_origin) where the code content is the line from column code_origin on"""
    def rec(i, prefix, pc, need):
        if i == len(segs):
            for e in extra:
                width = need + e - pc
                if width < 0:
                    continue
                for sp in ([" " * width] if canonical else blank_spellings(pc, width)):
                    yield prefix + sp + "y", need + 4
            return
        kind, w = segs[i]
        if kind == "l":
            yield from rec(i + 1, prefix, pc, need + w)
            return
        for qi in quote_indents:
            c = need + qi
            if c < pc:
                continue
            for sp in ([" " * (c - pc)] if canonical else blank_spellings(pc, c - pc)):
                yield from rec(i + 1, prefix + sp + ">", c + 1, c + 2)

    yield from rec(0, "", 0, 0)


def col2_case(md, l1, o1, l2, o2, acc):
    src = l1 + "\n" + l2 + "\n"
    toks = acc.call(md.parse, src)
    if toks is CRASH:
        return None
    cb = [t for t in toks if t.type == "code_block"]
    exp = strip_cols(l1, o1) + "\n" + strip_cols(l2, o2) + "\n"
    if len(cb) != 1:
        return "expected one two-line indented code block"
    acc.sig(("code2", cb[0].content, src))
    if cb[0].content != exp:
        return f"code content {cb[0].content!r} != column model {exp!r}"
    return None


MARK2 = [">", " >", "-", "1."]
WS_CANON = [" ", "    ", "     "]


# ---- (a3) verbatim blocks with a multi-line body in containers, after other blocks of the same container --------
V_CONTAINERS = [("", ""), ("> ", "> "), ("- ", "  "), ("> - ", ">   "), ("- > ", "  > "), ("> > ", "> > "), ("1. ", "   ")]
V_PREAMBLES = [[], ["text", ""], ["# h"], ["t", "==="], ["t", "---", ""], ["- i", ""], ["***"], ["[r]: /u", ""], ["a|b", "-|-", ""]]
V_BLOCKS = [("fence", ["```", "a", "b", "```"], "a\nb\n"), ("fence", ["~~~ x", "a", " b", "", "c"], "a\n b\n\nc\n"),
            ("code_block", ["    a", "     b", "", "    c"], "a\n b\n\nc\n"), ("html_block", ["<div>", "a", " b", "</div>"], "<div>\na\n b\n</div>\n"),
            ("fence", [" ```", " a", "b", "  c", " ```"], "a\nb\n c\n")]


# the same containers as a LATER sibling item whose marker width or content offset differs from the first item's
V_SIBLINGS = [(["9. s"], "10. ", "    "), (["10. s"], "9. ", "   "), (["1. s"], "02. ", "    "), (["- s"], "-   ", "    "),
              (["-   s"], "- ", "  "), (["9) s", ""], "10) ", "    "), (["> 9. s"], "> 10. ", ">     "),
              (["- 9. s"], "  10. ", "      "), (["99. s"], "100. ", "     ")]


def v_docs():
    for lead, first, cont in [([], f, c) for f, c in V_CONTAINERS] + V_SIBLINGS:
        for pre in V_PREAMBLES:
            for kind, body, exp in V_BLOCKS:
                lines = pre + body
                if kind == "code_block" and pre and pre[-1] != "":
                    continue  # indented code cannot interrupt a paragraph-like line
                in_list = "-" in first or "." in first or ")" in first
                if lead and kind == "code_block" and not pre and len(first) - len(first.rstrip(" ")) > 1:
                    continue  # (marker + more than one blank + indented code: the content offset is marker + 1)
                if in_list and pre[:1] == ["a|b"]:
                    continue  # the table rule takes the list marker line ('- a|b' + '-|-' is a table, not a list)
                if in_list and body[0].startswith(" "):
                    continue  # a body line indented less than the item's content offset would end the item
                src = "\n".join((first if i == 0 else cont) + l if (l or cont.strip()) else (first if i == 0 else cont).rstrip()
                                 for i, l in enumerate(lines)) + "\n"
                yield "".join(x + "\n" for x in lead) + src, kind, exp


def v_variants(src, exp):
    """the same family with a NUL in every body line and CRLF / CR line endings: content is that of the
    normalised input (U+FFFD, LF)"""
    yield src, exp
    s2, e2 = src.replace("a", "\x00a").replace("b", "b\x00"), exp.replace("a", "\ufffda").replace("b", "b\ufffd")
    yield s2, e2
    yield s2.replace("\n", "\r\n"), e2
    yield src.replace("\n", "\r"), exp


def v_case(md, src, kind, exp, acc):
    toks = acc.call(md.parse, src)
    if toks is CRASH:
        return None
    vb = [t for t in toks if t.type == kind]
    if len(vb) != 1:
        return None  # the construct did not form in this configuration (e.g. table preamble): nothing to check
    acc.sig(("v", src))
    if vb[0].content != exp:
        return f"{kind} content {vb[0].content!r} != source lines without their container prefix {exp!r}"
    return None


# ---- (a4) the column model after a preamble that makes the block parser re-scan lines -----------------------------
COL_PREAMBLES = ["> ```\nlazy\n", "> # h\nlazy\n", "> ***\nlazy\n", "a\n\n", "> a\n\n", "- a\n\n", "> - a\nlazy\n"]


# ---- (b) verbatim tokens vs their source lines ---------------------------------------------------------
HEAD_OK = re.compile(r"^[ \t>\-+*0-9.)]*$")


def verbatim(src, tokens, acc):
    lines = src.replace("\r\n", "\n").replace("\r", "\n").replace("\x00", "�").split("\n")
    if lines and lines[-1] == "":
        lines.pop()
    nquotes = 0
    for t in tokens:
        if t.type == "blockquote_open":
            nquotes += 1
        elif t.type == "blockquote_close":
            nquotes -= 1
        if t.type not in ("code_block", "fence", "html_block") or not t.map:
            continue
        b, e = t.map
        if e > len(lines):
            continue  # C03's business
        c = t.content
        last_open = e == len(lines) and not src.endswith(("\n", "\r"))
        if c and not c.endswith("\n"):
            if not last_open:
                return f"{t.type} content does not end with a newline"
            cl = c.split("\n")  # the last input line has no line ending, so neither has the content
        else:
            cl = c.split("\n")[:-1] if c else []
            if last_open and t.type != "code_block":
                # ... and when that last line is empty after its container prefix it contributes an empty,
                # unterminated content line
                want = (e - b - 1) if t.type == "fence" else (e - b)
                if len(cl) == want - 1 and lines[e - 1].strip(" \t>") == "":
                    cl = cl + [""]
        if t.type == "fence":
            first = b + 1
            n = len(cl)
            if n == e - b - 2:
                closer = lines[e - 1]
                if t.markup[:1] * len(t.markup) not in closer:
                    return "fence: content is one line short of its map and the last map line is not a closing fence"
            elif n != e - b - 1:
                return f"fence: {n} content lines for map span {e - b}"
        else:
            first = b
            if len(cl) != e - b:
                return f"{t.type}: {len(cl)} content lines for map span {e - b}"
        acc.sig((t.type, c, tuple(lines[b:e])))
        for i, l in enumerate(cl):
            srcl = lines[first + i]
            core = l.lstrip(" ")
            if not srcl.endswith(core):
                return f"{t.type}: content line {i} is not a suffix of its source line"
            head = srcl[:len(srcl) - len(core)]
            if not HEAD_OK.match(head):
                return f"{t.type}: removed head of line {i} contains non-indentation characters"
            if len(l) - len(core) > cols(head):
                return f"{t.type}: content line {i} has more leading spaces than the source has columns"
            if head.count(">") < nquotes and srcl.strip(" \t>") != "":
                # a verbatim block has no lazy lines: every line re-enters all enclosing quotes, and those
                # markers belong to the removed prefix, not to the content
                return f"{t.type}: content line {i} keeps a block quote marker of its container"
    return None


# ---- (c) independent backtick scanner -----------------------------------------------------------------
BT_ATOMS = ["`", "``", "a", " ", "\n", "\xa0", "\x0b", "*", "["]
BT2_ATOMS = ["`", "``", "a", " ", "]", "(u)"]


def scan_backticks(s):
    out = []
    i = 0
    n = len(s)
    runs = [(m.start(), m.end()) for m in re.finditer(r"`+", s)]
    ri = 0
    while ri < len(runs):
        st, en = runs[ri]
        L = en - st
        close = None
        for rj in range(ri + 1, len(runs)):
            if runs[rj][1] - runs[rj][0] == L:
                close = rj
                break
        if close is None:
            ri += 1
            continue
        text = s[en:runs[close][0]].replace("\n", " ")
        if text.startswith(" ") and text.endswith(" ") and text.strip(" ") != "":
            text = text[1:-1]
        out.append(("`" * L, text))
        ri = close + 1
    return out


def _code_spans(children):
    out = []
    for c in children or []:
        if c.type == "code_inline":
            out.append((c.markup, c.content))
        elif c.children:  # image descriptions
            out += _code_spans(c.children)
    return out


def bt_case(md, s, acc):
    toks = acc.call(md.parseInline, s)
    if toks is CRASH:
        return None
    got = _code_spans(toks[0].children)
    exp = scan_backticks(toks[0].content)
    if got:
        acc.sig(("bt", tuple(got)))
    if got != exp:
        return f"code spans {got!r} != scanner {exp!r}"
    # also through the block parser when the string is a clean single paragraph
    if s and s == s.strip() and "\n" not in s:
        bt = acc.call(md.parse, s)
        if bt is not CRASH and len(bt) == 3 and bt[1].type == "inline" and bt[1].content == s:
            got2 = _code_spans(bt[1].children)
            if got2 != exp:
                return f"code spans in paragraph {got2!r} != scanner {exp!r}"
    return None


# ---- (d) recorded markup ------------------------------------------------------------------------------
def markup(src, tokens, acc):
    lines = src.replace("\r\n", "\n").replace("\r", "\n").replace("\x00", "�").split("\n")
    if lines and lines[-1] == "":
        lines.pop()
    stack = []
    for idx, t in enumerate(tokens):
        if t.nesting == -1:
            if stack:
                stack.pop()
            continue
        m = t.map
        if m and m[1] <= len(lines):
            b, e = m
            lb = lines[b]
            if t.type == "fence":
                mk = t.markup
                if not re.fullmatch(r"`{3,}|~{3,}", mk or ""):
                    return f"fence markup {mk!r} is not a fence string"
                mm = re.match(r"^([ \t>\-+*0-9.)]*?)((`+)|(~+))", lb)
                # the opening run is the first run of the fence character after the container prefix
                pos = lb.find(mk[0])
                run = re.match(re.escape(mk[0]) + "+", lb[pos:]).group(0) if pos >= 0 else ""
                if run != mk:
                    return f"fence markup {mk!r} != opening run {run!r}"
                if lb[pos + len(run):] != t.info:
                    return f"fence info {t.info!r} != rest of the opening line {lb[pos + len(run):]!r}"
                acc.sig(("fence", mk, t.info))
            elif t.type == "heading_open":
                if t.markup in ("=", "-"):
                    if t.markup not in lines[e - 1] or lines[e - 1].strip(" \t>" + t.markup + "0123456789.)-+*") != "":
                        return f"setext markup {t.markup!r} not the underline character of line {e - 1}"
                    if t.tag != ("h1" if t.markup == "=" else "h2"):
                        return "setext level does not match the underline character"
                else:
                    mm = re.search(r"#+", lb)
                    run = mm.group(0) if mm else ""
                    if t.markup != run:
                        return f"ATX markup {t.markup!r} != opening run {run!r}"
                    if t.tag != f"h{len(run)}":
                        return "ATX level does not match the number of #"
                acc.sig(("h", t.markup, lb))
            elif t.type == "hr":
                mk = t.markup
                if not mk or len(set(mk)) != 1 or mk[0] not in "-*_":
                    return f"hr markup {mk!r} is not a run of one marker character"
                squeezed = re.sub(r"[ \t]", "", lb)
                if not squeezed.endswith(mk):
                    return f"hr markup {mk!r} does not match the marker characters of the line"
                if not stack and squeezed != mk:
                    return f"hr markup {mk!r} has a different count than the line {squeezed!r}"
                acc.sig(("hr", mk, lb))
            elif t.type == "blockquote_open":
                if t.markup != ">" or ">" not in lb:
                    return "blockquote markup is not the > of its first line"
            elif t.type == "list_item_open":
                par = stack[-1] if stack else None
                if par is not None and par.type == "ordered_list_open":
                    if not re.fullmatch(r"\d{1,9}", t.info or ""):
                        return f"ordered item info {t.info!r} is not the digits written"
                    if t.markup not in (".", ")") or (t.info + t.markup) not in lb:
                        return f"ordered item marker {t.info}{t.markup} not in its source line"
                    if par.markup != t.markup:
                        return "ordered list markup differs from its item delimiter"
                    # first item decides start
                    if tokens[idx - 1] is par:
                        v = int(t.info)
                        st = (par.attrs or {}).get("start")
                        if (v == 1 and st is not None) or (v != 1 and st != v):
                            return f"ordered list start {st!r} != digits written {t.info!r}"
                    acc.sig(("ol", t.info, t.markup, lb))
                elif par is not None and par.type == "bullet_list_open":
                    if t.markup not in ("-", "+", "*") or t.markup not in lb or par.markup != t.markup:
                        return f"bullet markup {t.markup!r} not the bullet of its source line"
                    acc.sig(("ul", t.markup, lb))
        if t.nesting == 1:
            stack.append(t)
    return None


# ---- driver --------------------------------------------------------------------------------------------
def bounds(tier):
    th = tier == "thorough"
    return {"column_depth": 3 if th else 2, "markers": MARK, "blank_runs": WS, "payloads": PAYLOADS,
            "backtick_atoms": BT_ATOMS, "backtick_L": 6 if th else 5, "configs": CFGS,
            "L_space": I.describe(tier)["L_contextual"], "L_free": I.describe(tier)["L_free"]}


def shards(tier):
    th = tier == "thorough"
    sh = []
    for mk in MARK:
        for d in ((1, 2, 3) if th else (1, 2)):
            sh.append(("col", mk, d))
    for mk in MARK2:
        sh.append(("col2", mk, 1, "full"))
        sh.append(("col2", mk, 2, "first-canonical"))
        sh.append(("col2", mk, 2, "second-canonical"))
        if th:
            sh.append(("col2", mk, 3, "first-canonical"))
    sh.append(("vfam",))
    for pi in range(len(COL_PREAMBLES)):
        sh.append(("colpre", pi, 2 if th else 1))
    for f in BT_ATOMS:
        sh.append(("bt", f, 6 if th else 5))
    for f in ("[", "[a", "![", "[`"):
        sh.append(("bt2", f, 7 if th else 6))
    sh += I.block_shards(tier, CFGS, contexts=S.CONTEXTS if th else S.CONTEXTS[:4])
    for f in S.SEP_LEAVES:
        sh.append(("sep", f))
    sh.append(("ol",))
    return sh


OL_DOCS = [f"{n}{d}{sp}a\n" for n in ["0", "1", "2", "7", "10", "007", "123456789", "1234567890", "01"]
           for d in ".)" for sp in (" ", "\t", "  ")] + \
          [f"{n}{d} a\n{m}{d} b\n" for n in ("1", "3", "09") for m in ("1", "5") for d in ".)"] + \
          [p + l for p in ("", "> ", "- ") for l in ("***\n", "* * *\n", "_ _ _ _\n", "-\t-\t-\n", " - - -  \n", "____\n",
                                                    "## a ##\n", "###### a\n", "####### a\n", "#\ta\n", "a\n==\n",
                                                    "a\n--\n", "~~~~ x y\nb\n~~~~~\n", "````\n```\n````\n")]


def _do_doc(md, c, src, acc, sub):
    toks = acc.call(md.parse, src)
    if toks is CRASH:
        return
    r = verbatim(src, toks, acc)
    if r:
        acc.violation(sub, "verbatim: " + re.sub(r"\d+", "N", r)[:60], {"cfg": c, "src": src, "part": "b"}, r)
    r = markup(src, toks, acc)
    if r:
        acc.violation(sub, "markup: " + re.sub(r"'[^']*'|\d+", "_", r)[:60], {"cfg": c, "src": src, "part": "d"}, r)


def run_shard(sh, acc):
    kind = sh[0]
    if kind == "col":
        _, mk, d = sh
        for c in CFGS:
            md = C.build(c)
            for prefix, origin in build(d, mk):
                pc = cols(prefix)
                for pl in PAYLOADS:
                    line = prefix + pl
                    acc.case()
                    r = col_case(md, line, origin, pc, pl, acc)
                    if r:
                        acc.violation(kind, re.sub(r"'[^']*'", "_", r)[:50],
                                      {"cfg": c, "line": line, "origin": origin, "pc": pc, "payload": pl}, r)
        acc.sample(kind, {"line": mk + " \tx", "depth": d}, 1)
    elif kind == "col2":
        _, mk, d, mode = sh
        c = CFGS[0]
        md = C.build(c)
        n = 0
        wss1 = WS_CANON if mode == "first-canonical" else WS
        for prefix, origin, segs in build_segs(d, MARK2, wss1):
            if not prefix.startswith(mk) or cols(prefix) - origin < 4:
                continue
            l1 = prefix + "x"
            for l2, o2 in second_lines(segs, canonical=(mode == "second-canonical")):
                acc.case()
                n += 1
                r = col2_case(md, l1, origin + 4, l2, o2, acc)
                if r:
                    acc.violation(kind, re.sub(r"'[^']*'", "_", r)[:50], {"cfg": c, "l1": l1, "o1": origin + 4, "l2": l2, "o2": o2}, r)
        acc.sample(kind, {"l1": ">\t\tx", "l2": " >\t\ty", "mode": mode, "depth": d}, 1)
    elif kind == "vfam":
        for c in CFGS:
            md = C.build(c)
            for src0, k, exp0 in v_docs():
                for src, exp in v_variants(src0, exp0):
                    acc.case()
                    r = v_case(md, src, k, exp, acc)
                    if r:
                        acc.violation(kind, f"{k} in a container differs from its source lines", {"cfg": c, "src": src, "kind": k, "exp": exp}, r)
        acc.sample(kind, {"src": "> text\n>\n> ```\n> a\n> b\n> ```\n", "kind": "fence", "exp": "a\nb\n"}, 1)
    elif kind == "colpre":
        _, pi, depth = sh
        pre = COL_PREAMBLES[pi]
        c = CFGS[0]
        md = C.build(c)
        for d in range(1, depth + 1):
            for prefix, origin in build(d):
                if not prefix.lstrip(" ").startswith(">"):
                    continue
                pc = cols(prefix)
                if pc - origin < 4:
                    continue
                line = prefix + "x"
                acc.case()
                toks = acc.call(md.parse, pre + line + "\n")
                if toks is CRASH:
                    continue
                cb = [t for t in toks if t.type == "code_block"]
                exp = strip_cols(line, origin + 4) + "\n"
                if len(cb) != 1:
                    continue
                acc.sig(("colpre", pi, line))
                if cb[0].content != exp:
                    acc.violation(kind, "code content after a preamble differs from the column model",
                                  {"cfg": c, "pre": pre, "line": line, "origin": origin},
                                  f"code content {cb[0].content!r} != column model {exp!r} (alone the same line is correct)")
        acc.sample(kind, {"pre": pre, "line": ">\t\tx"}, 1)
    elif kind == "bt2":
        # link-label lookahead in front of backtick strings (the label is scanned ahead, then tokenized)
        _, f, L = sh
        md = C.build(CFGS[0])
        for s in S.strings_with_first(f, BT2_ATOMS, L):
            acc.case()
            r = bt_case(md, s, acc)
            if r:
                acc.violation("bt", "code span differs from the backtick scanner", {"cfg": CFGS[0], "s": s}, r)
        acc.sample("bt", {"s": f + "`a`a`"}, 1)
    elif kind == "bt":
        _, f, L = sh
        md = C.build(CFGS[0])
        for s in S.strings_with_first(f, BT_ATOMS, L):
            acc.case()
            r = bt_case(md, s, acc)
            if r:
                acc.violation(kind, "code span differs from the backtick scanner", {"cfg": CFGS[0], "s": s}, r)
        acc.sample(kind, {"s": f + " a`"}, 1)
    elif kind == "ol":
        for c in CFGS:
            md = C.build(c)
            for src in OL_DOCS:
                acc.case()
                _do_doc(md, c, src, acc, kind)
        acc.sample(kind, {"src": OL_DOCS[0]}, 1)
    else:
        first = True
        for c, _m, src in I.iter_shard(sh):
            md = C.build(c)
            acc.case()
            if first:
                acc.sample(kind, {"cfg": c, "src": src})
                first = False
            _do_doc(md, c, src, acc, kind)


def check_case(case, acc):
    sub = case["sub"]
    acc.case()
    if sub == "col":
        md = C.build(case["cfg"], fresh=True)
        r = col_case(md, case["line"], case["origin"], case["pc"], case["payload"], acc)
        if r:
            acc.violation(sub, re.sub(r"'[^']*'", "_", r)[:50], {k: v for k, v in case.items() if k != "sub"}, r)
    elif sub == "vfam":
        md = C.build(case["cfg"], fresh=True)
        r = v_case(md, case["src"], case["kind"], case["exp"], acc)
        if r:
            acc.violation(sub, f"{case['kind']} in a container differs from its source lines", {k: v for k, v in case.items() if k != "sub"}, r)
    elif sub == "colpre":
        md = C.build(case["cfg"], fresh=True)
        line = case["line"]
        toks = acc.call(md.parse, case["pre"] + line + "\n")
        cb = [] if toks is CRASH else [t for t in toks if t.type == "code_block"]
        exp = strip_cols(line, case["origin"] + 4) + "\n"
        if len(cb) == 1 and cb[0].content != exp:
            acc.violation(sub, "code content after a preamble differs from the column model", {k: v for k, v in case.items() if k != "sub"},
                          f"code content {cb[0].content!r} != column model {exp!r}")
    elif sub == "col2":
        md = C.build(case["cfg"], fresh=True)
        r = col2_case(md, case["l1"], case["o1"], case["l2"], case["o2"], acc)
        if r:
            acc.violation(sub, re.sub(r"'[^']*'", "_", r)[:50], {k: v for k, v in case.items() if k != "sub"}, r)
    elif sub == "bt":
        md = C.build(case["cfg"], fresh=True)
        r = bt_case(md, case["s"], acc)
        if r:
            acc.violation(sub, "code span differs from the backtick scanner", {"cfg": case["cfg"], "s": case["s"]}, r)
    else:
        md = C.build(case["cfg"], fresh=True)
        _do_doc(md, case["cfg"], case["src"], acc, sub)
