"""Input spaces (DESIGN.md 2.2).  All enumerators are deterministic and complete for their bound."""
from __future__ import annotations

import glob
import itertools
import os
import re

from .core import REPO

# ---- L-space -----------------------------------------------------------------------------------------
PREFIXES = ["", "> ", ">", "- ", "1. ", "  ", "    ", "\t", ">\t"]
LEAVES = ["", "a", "# a", "#", "---", "===", "* * *", "- a", "-", "+", "1. a", "2)", "> a", ">", "```", "~~~",
          "``` x", "[a]: /u", "[a]", "'t'", "a|b", "-|-", ":-:|-", "|", "<div>", "</div>", "<!-- x", "-->",
          "    a", "\ta", "a  ", "a\\", "\\", " ", "\t"]
LEAVES_SMALL = ["", "a", "# a", "#", "---", "===", "- a", "-", "1. a", "> a", ">", "```", "~~~", "[a]: /u", "[a]",
                "a|b", "-|-", "|", "<div>", "<!-- x", "* * *", "a  ", "\\", "    a", "\ta"]
LEAVES_TINY = ["", "a", "# a", "---", "===", "- a", "-", "1. a", "> a", ">", "```", "[a]: /u", "[a]", "a|b", "-|-",
               "<div>", "    a", "  a", "\\"]
FREE_LINES = ["", "a", "    a", "  a", "# a", "#", "---", "===", "***", "- a", "-", "1. a", "2)", "> a", ">", "```",
              "~~~", "``` x", "[a]: /u", "[a]", "a|b", "-|-", "|", ":-:|-", "\ta", " \t", "  ", "<div>", "</div>",
              "<!-- x", "-->", "   - a", "    - a", "> - a", "- > a", ">     a", "+", "* * *", "_ _", "a  ", "a\\",
              "\\"]
CONTEXTS = ["> ", "- ", "1. ", "    ", "> > ", "> - ", "- > ", "  ", "\t", ">\t", "-\t", "10) "]


def ctx_lines(P, leaves=LEAVES_SMALL):
    variants = sorted({P, P.rstrip(" \t"), ""})
    return sorted({v + l for v in variants for l in leaves})


def docs_with_first(first, lines, K, both_endings=True):
    """all documents of 1..K lines whose first line is `first` (with and without final newline)."""
    for k in range(0, K):
        for combo in itertools.product(lines, repeat=k):
            s = "\n".join((first,) + combo)
            if both_endings:
                yield s
            yield s + "\n"


def docs(lines, K, both_endings=True):
    yield ""
    for f in lines:
        yield from docs_with_first(f, lines, K, both_endings)


# ---- I-space -----------------------------------------------------------------------------------------
ATOMS = ["a", " ", "*", "_", "**", "`", "``", "[", "]", "(", ")", "(u)", "!", "<", ">", "<b>", "</a>", "\\", "&",
         "&amp;", "&#60;", "&#xFFFFFF;", "&#xD800;", "#", ";", "\"", "'", "\n", "  \n", "~~", "|", "-", ":", "//",
         "http", "\t", "\xa0", "—", "​", "\x00", "\r", "\U0001F600"]
ATOMS_CORE = ["a", " ", "*", "_", "`", "[", "]", "(u)", "![", "](u)", "<", ">", "<b>", "\\", "&amp;", "\"", "\n", "~~", "://",
              "http", "&#xFFFFFF;", "\x00"]


# characters that str.splitlines() treats as line boundaries but Markdown does not (and LS/PS/NEL)
SEPARATORS = ["\x0b", "\x0c", "\x1c", "\x1d", "\x1e", "\x85", "\u2028", "\u2029"]
SEP_LEAVES = ["a" + c + "b" for c in SEPARATORS] + ["\x0c", "\u2028", "# a\x0cb", "```\nfoo\x0cbar", "    a\u2028b",
                                                       "<div>\x85x", "a\x1d", "- a\x0bb"]
# reference definitions whose destination / title / label contain escapes, references to line ends and real line ends
DEF_LEAVES = ['[r]: /u "a&#10;b"', "[r]: /u 'a&NewLine;b'", '[r]: /u "&#xA;&#10;"', '[r]: /u "a\nb"', '[r]: /u\n"t"', "[r]:\n/u",
              "[r]: <a b> (t&#10;)", "[r&#10;x]: /u", "[r]: /u&#10;v", '[r]: /u "t" x', '[r]: /u "a\\\nb"', "[r\nx]: /u",
              '[r]: /u "a\n\nb"', "[r]: /u (a&#13;b)"]
# delimiter runs: the "rule of 3", runs that can both open and close, lone markers next to closers
EMPH_ATOMS = ["a", "*", "**", "_", " "]
STRIKE_ATOMS = ["[", "~~", "~", "a", "](u)", "*", " "]


def strings_with_first(first, atoms, L):
    for k in range(0, L):
        for combo in itertools.product(atoms, repeat=k):
            yield first + "".join(combo)


def strings(atoms, L):
    yield ""
    for f in atoms:
        yield from strings_with_first(f, atoms, L)


# ---- C-space -----------------------------------------------------------------------------------------
_seed_cache = None


def corpus_seeds():
    """inputs (never expected outputs) of the spec examples and port fixtures under REPO/tests."""
    global _seed_cache
    if _seed_cache is not None:
        return _seed_cache
    seeds = []
    import json as _json

    for p in sorted(glob.glob(os.path.join(REPO, "tests", "**", "*.json"), recursive=True)):
        try:
            data = _json.load(open(p, encoding="utf8"))
        except Exception:
            continue
        if isinstance(data, list):
            for e in data:
                if isinstance(e, dict) and isinstance(e.get("markdown"), str):
                    seeds.append(e["markdown"])
    for p in sorted(glob.glob(os.path.join(REPO, "tests", "**", "fixtures", "*.md"), recursive=True)):
        try:
            text = open(p, encoding="utf8").read()
        except Exception:
            continue
        # fixture format: title \n . \n input \n . \n expected \n .
        parts = re.split(r"^\.$", text, flags=re.M)
        i = 1
        while i + 1 < len(parts):
            src = parts[i]
            if src.startswith("\n"):
                src = src[1:]
            seeds.append(src)
            i += 3
    seen = set()
    out = []
    for s in seeds:
        if s not in seen and len(s) <= 600 and not re.search("[\ud800-\udfff]", s):
            seen.add(s)
            out.append(s)
    _seed_cache = out
    return out


DEV_ATOMS = ["", "\n", " ", "\t", ">", "-", "*", "`", "[", "]", "(", "\\", "<", "&", "|", "#", "\x00", "\r", "a", "1."]


def deviations1(seed, atoms=DEV_ATOMS):
    """every prefix, and every single-atom insertion / replacement / deletion at every position."""
    n = len(seed)
    for i in range(n + 1):
        yield seed[:i]
    for i in range(n + 1):
        for a in atoms:
            if a:
                yield seed[:i] + a + seed[i:]
    for i in range(n):
        yield seed[:i] + seed[i + 1:]
        for a in atoms:
            if a and a != seed[i]:
                yield seed[:i] + a + seed[i + 1:]


# ---- N-space -----------------------------------------------------------------------------------------
def nest(kind, depth):
    if kind == "quote":
        return ">" * depth + " a\n"
    if kind == "quote_sp":
        return "> " * depth + "a\n"
    if kind == "bullet":
        return "".join(" " * (2 * i) + "- " if i == 0 else "- " for i in range(depth)) + "a\n"
    if kind == "ordered":
        return "1. " * depth + "a\n"
    if kind == "bullet_lines":
        return "".join(" " * (2 * i) + "- a\n" for i in range(depth))
    if kind == "em":
        return "*a " * depth + "b" + " a*" * depth + "\n"
    if kind == "strong":
        return "**a " * depth + "b" + " a**" * depth + "\n"
    if kind == "stars":
        return "*" * depth + "a" + "*" * depth + "\n"
    if kind == "link":
        return "[" * depth + "a" + "](u)" * depth + "\n"
    if kind == "image":
        return "![" * depth + "a" + "](u)" * depth + "\n"
    if kind == "brackets":
        return "[" * depth + "a" + "]" * depth + "\n"
    if kind == "parens":
        return "[a](" + "(" * depth + "u" + ")" * depth + ")\n"
    if kind == "strike":
        return "~~a " * depth + "b" + " a~~" * depth + "\n"
    if kind == "mixed":
        return "".join(("> ", "- ", "1. ")[i % 3] for i in range(depth)) + "a\n"
    if kind == "table_ragged":
        # header of `depth` columns, `depth` body rows of one cell (every row is completed to the header width)
        d = min(depth, 300)
        return "|" + "h|" * max(1, d) + "\n|" + "-|" * max(1, d) + "\n" + "|c\n" * d
    if kind == "table_wide_row":
        d = min(depth, 2000)
        return "|h|\n|-|\n|" + "c|" * d + "\n"
    if kind == "quote_list_lines":
        return "".join("> " * i + "- a\n" for i in range(depth))
    raise KeyError(kind)


NEST_KINDS = ["quote", "quote_sp", "bullet", "ordered", "bullet_lines", "em", "strong", "stars", "link", "image",
              "brackets", "parens", "strike", "mixed", "quote_list_lines", "table_ragged", "table_wide_row"]
