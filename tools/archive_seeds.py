#!/usr/bin/env python3
"""copy confirmed seeds from /tmp/seeds/<ID>/<A|B> (with eval.json) to /verif/seeded/<ID>-<A|B>/"""
import glob, json, os, shutil, sys
WAVE3_MISSED = {"C02-C","C02-D","C03-D","C04-D","C06-C","C07-C","C08-C","C08-D","C09-D","C10-C","C12-C","C13-C","C13-D","C14-D","C15-C","C16-C","C16-D","C17-C","C17-D","C18-D","C19-C","C19-D","C20-C","C20-D"}
WAVE5_MISSED = {"C01-E","C02-F","C04-E","C04-F","C05-E","C05-F","C06-E","C06-F","C07-E","C07-F","C08-E","C08-F","C09-E","C10-E","C11-E","C11-F","C12-E","C12-F","C13-E","C13-F","C14-F","C15-F","C16-E","C16-F","C17-F","C18-F","C19-F","C20-E"}
OBSOLETE = {"C13-B": "no longer breaks the property since fix ef660b4 (backtick cache positions are monotone and only trusted from the earliest completed scan on, so a shared dict can no longer make a parse skip a closer); kept for the record (patch rebased onto the current tree; its demo passes now)"}
MISSED_FIRST = {"C01-A","C04-A","C04-B","C05-B","C07-A","C08-A","C09-A","C10-B","C11-B","C12-A","C13-A","C13-B","C15-A","C17-B","C19-B"}
rows=[]
for d in sorted(glob.glob("/tmp/seeds/C*/[AB]"))+sorted(glob.glob("/tmp/seeds3/C*/[AB]"))+sorted(glob.glob("/tmp/seeds5/C*/[AB]")):
    pid=d.split("/")[-2]; v=d.split("/")[-1]
    if "/seeds3/" in d: v={"A":"C","B":"D"}[v]
    if "/seeds5/" in d: v={"A":"E","B":"F"}[v]
    name=f"{pid}-{v}"
    ev=os.path.join(d,"eval.json")
    if not os.path.exists(ev): continue
    t=open(ev).read()
    try: e=json.loads(t[t.index("{"):])
    except Exception: continue
    if not e.get("confirmed") and name not in OBSOLETE: continue
    out=f"/verif/seeded/{name}"
    os.makedirs(out,exist_ok=True)
    for f in ("patch.diff","demo.py","notes.md"):
        if os.path.exists(os.path.join(d,f)): shutil.copy(os.path.join(d,f),out)
    notes=open(os.path.join(d,"notes.md")).read() if os.path.exists(os.path.join(d,"notes.md")) else ""
    caught={k:v for k,v in e.get("checks",{}).items()}
    meta={"id":name,"breaks_property":pid,"origin":"written by a sub-agent that saw only the property text and a scratch worktree of /repo",
          "needs_to_manifest": notes.strip()[:1200],
          "confirmed":{"suite_with_patch":e["suite_with_patch"],"demo_without_patch_rc":e["demo_without_patch_rc"],"demo_with_patch_rc":e["demo_with_patch_rc"],
                       "how":"tools/seed_eval.py: scratch copy of /repo, pytest tests (875 passed / 32 linkify failures expected), demo.py with and without the patch"},
          "detected_by":{k:{"exit":v["rc"],"violation_classes":v["classes"][:3]} for k,v in caught.items()},
          "missed_by_first_version_of_the_check": name in MISSED_FIRST or name in WAVE3_MISSED or name in WAVE5_MISSED}
    if name in OBSOLETE: meta["obsolete"]=OBSOLETE[name]
    json.dump(meta,open(os.path.join(out,"meta.json"),"w"),indent=1)
    rows.append((name,pid,[k for k,v in caught.items() if v["rc"]==1] if name not in OBSOLETE else ["(obsolete: neutralised by a fix)"], name in MISSED_FIRST or name in WAVE3_MISSED or name in WAVE5_MISSED, (notes.strip().splitlines() or [""])[0][:110]))
with open("/verif/seeded/README.md","w") as fh:
    fh.write("# Seeded property-breaking changes\n\nEach directory holds `patch.diff` (applies with `git -C /repo apply`), `demo.py` (fails with the change, passes without), the author's `notes.md` and `meta.json`.\n"
             "All were written by sub-agents that saw only the property text and a scratch worktree (round 2, suffixes -C/-D: also the one-line titles of the round-1 changes, to avoid repeats); each was confirmed with `tools/seed_eval.py` (suite still 875 passed / 32 linkify failures with the change; demo exit 1 with, 0 without).\n"
             "`first version missed` = the quick check as first built did not report it; the check was then strengthened (see DESIGN.md 7.6 and 7.7) and reports it now.\n\n"
             "| seed | property | reported by (quick tier) | first version missed | change |\n|---|---|---|---|---|\n")
    for r in rows:
        fh.write(f"| {r[0]} | {r[1]} | {', '.join(r[2]) or 'NOT DETECTED'} | {'yes' if r[3] else 'no'} | {r[4].replace('|','/')} |\n")
print(len(rows),"seeds archived")
