#!/usr/bin/env python3
"""Regenerate /verif/MANIFEST.json from the table below; a property is claimed iff mc/props/<id>.py exists."""
import json
import os

HERE = os.path.dirname(os.path.dirname(os.path.abspath(__file__)))

T = {
    "C01": ("exploration", "bounded-exhaustive enumeration of inputs x configurations on the real parser",
            "Every document of the stated line-shape / atom / nesting / corpus-deviation spaces is parsed and rendered "
            "under every configuration within d switch toggles of each preset; any exception or call-horizon overrun "
            "is a violation. Totality is a universally quantified safety property of a sequential function, so "
            "complete enumeration of a prefix- and product-closed bounded space is the model-checking form of it.",
            "alphabets and bounds as written to evidence; stub linkifier; surrogates excluded", "3 C01"),
    "C02": ("exploration", "bounded-exhaustive enumeration + bracket-discipline stack machine on every stream",
            "Same spaces as C01; each returned stream is run through an independent stack-machine checker "
            "(pairing, tag/markup equality, levels, block flags, children placement, no adjacent text, no specials) "
            "recursively, then SyntaxTreeNode must build.",
            "as C01", "3 C02"),
    "C03": ("exploration", "bounded-exhaustive enumeration of line-shape documents x block-rule subsets + map checker",
            "All contextual/free line-shape documents of <=3 lines under block-rule subsets; an independent checker "
            "evaluates range, nesting, order, blank-end, content-line containment and coverage on every map.",
            "line alphabet and K as in evidence; CR variants are covered by C17", "3 C03"),
    "C04": ("exploration", "bounded-exhaustive enumeration + strict output-grammar tokenizer",
            "Inline atom strings and line-shape documents with metacharacters in every slot, under every html=False "
            "configuration neighbourhood; the output is tokenised by an independent strict grammar (fixed tag and "
            "attribute vocabulary, proper nesting, escaped text and attribute values).",
            "alphabets/bounds in evidence; default renderer, no highlight callback", "3 C04"),
    "C05": ("exploration", "bounded-exhaustive enumeration of scheme spellings x producer syntaxes + URL oracle",
            "Every spelling of each dangerous scheme with <=2 re-encoded characters and <=1 inserted ignorable "
            "character x prefixes x producer syntaxes x presets; hrefs/srcs on tokens and in HTML must be URL-safe "
            "ASCII and not carry a dangerous scheme under the browser's reading; rejected constructs stay literal.",
            "stub linkifier; browser view = strip C0/space, drop TAB/LF/CR, lower-case", "3 C05"),
    "C06": ("exploration", "bounded-exhaustive enumeration + differential oracle parse(wrap(D)) = wrap(parse(D))",
            "Every base document of <=3 lines x every wrapper word (quote, 7 list markers) up to the stated depth; "
            "the wrapped parse must equal the lifted base parse modulo exactly what the property allows.",
            "commonmark rules; tab/CR/NUL-free newline-terminated bases", "3 C06"),
    "C07": ("exploration", "bounded-exhaustive enumeration of document pairs + differential concatenation oracle",
            "All pairs (A,B) of enumerated documents meeting the operational side conditions; block tokens of "
            "A+blank+B must equal those of A followed by those of B shifted.",
            "side conditions decided with the parser itself on a probe paragraph and a seam regex", "3 C07"),
    "C08": ("exploration", "bounded-exhaustive enumeration + independent column model and backtick scanner",
            "Templated container chains x every tab/space spelling x payloads checked against an independent model of "
            "CommonMark tab columns; all verbatim tokens of the L-space against their source lines; code spans "
            "against an independent backtick scanner; recorded markup/info against the source lines.",
            "column model is 40 lines of CommonMark tab arithmetic written independently", "3 C08"),
    "C09": ("exploration", "bounded-exhaustive enumeration of texts x escape forms x contexts, template oracle",
            "All texts of <=3 (thorough 4) symbols over a 34-symbol alphabet x {backslash, numeric, named} forms x 7 "
            "inline contexts x 2 presets; rendered output must equal the context template with escapeHtml(t).",
            "alphabet in evidence", "3 C09"),
    "C10": ("exploration", "bounded-exhaustive enumeration of documents x configuration neighbourhoods",
            "Token types must be a subset of what the enabled rules can produce; extension on/off equality on inputs "
            "without trigger characters; inline_definitions/store_labels only add; the three option routes agree.",
            "d<=2 switch neighbourhoods of the presets, not all 2^23 subsets", "3 C10"),
    "C11": ("model_checking", "explicit-state BFS over rule-management histories on the real Ruler / MarkdownIt",
            "Breadth-first search to a fixpoint over Ruler operations (bounded rule count) with a canonical key "
            "containing every field of the object; coherence invariant and reference-model agreement in every state; "
            "same search through the MarkdownIt facade.",
            "rule-name universe {a,b,z}, alt chains {x,y}, <=3 (thorough 4) rules", "3 C11"),
    "C12": ("model_checking", "explicit-state BFS over API-call histories, state = generic shared-heap fingerprint",
            "BFS over histories of construct/parse/render/enable/option/render-rule/plugin/set-from-other-instance/"
            "deep-stack-fault/token-edit operations on 1-2 live instances, every transition executed in a process "
            "forked from a master that never calls the library; after every transition every instance is probed on a "
            "document pool and compared with probes computed one document per pristine process; no mutable object "
            "may be reachable from two instances; shared presets and caller-owned dicts must be unchanged.",
            "document pool and operation alphabet in evidence; depth bound", "3 C12"),
    "C13": ("model_checking", "stateless exploration of all thread interleavings under a controlled scheduler "
            "(iterative preemption bounding, sys.monitoring)",
            "Real threads serialised by a baton, one pristine forked process per execution; every placement of 1 "
            "preemption (LINE events + bytecode INSTRUCTION events inside ruler.py) and 2 preemptions around the shared "
            "writes for pairs of calls on fresh / reconfigured / warmed instances; documents that write the shared heap "
            "on a warmed instance are explored in windows around their writes; every re-entry point of nested calls; "
            "each result must equal the solo result, horizon = hang.",
            "CPython GIL semantics (switches only between bytecodes); 8-document pool x scenarios", "3 C13"),
    "C14": ("fault_enumeration", "exhaustive fault injection at every callback invocation x exception class",
            "For every rule of every chain, render rule and the highlight callback: raise instead of / after the i-th "
            "invocation, for every i and 6 exception classes; every exit path of (nested) reset_rules blocks; "
            "exception identity, rules, options, heap fingerprint and probes must be as before.",
            "document set and configurations in evidence", "3 C14"),
    "C15": ("exploration", "bounded-exhaustive enumeration of token streams + round-trip / tree-law oracles",
            "Every stream of the enumerated documents: as_dict/from_dict in 4 modes, tree build/flatten identity, "
            "walk order, link consistency, render twice.",
            "spaces as C02 (reduced)", "3 C15"),
    "C16": ("exploration", "bounded-exhaustive enumeration of documents x definition blocks x env histories",
            "Differential: render(D, env seeded by R) = render(R + blank + D); bookkeeping counts; all cased code "
            "points; reference form vs inline form over (text,dest,title) triples.",
            "pools in evidence", "3 C16"),
    "C17": ("exploration", "bounded-exhaustive enumeration of encodings, differential against the canonical twin",
            "Every assignment of LF/CRLF/CR to every line end, NUL vs U+FFFD at every position, every tab spelling of "
            "every blank run, compared with the LF / U+FFFD / space-spelled twin.",
            "line/atom bounds in evidence", "3 C17"),
    "C18": ("exploration", "bounded-exhaustive enumeration + differential / reference renderer",
            "Inline strings across 5 block contexts; parseInline vs paragraph; all 24 renderer-option combinations "
            "against a reference renderer applied to the same tokens.",
            "atoms in evidence", "3 C18"),
    "C19": ("exploration", "bounded-exhaustive enumeration, shape equality and per-character substitution relation",
            "Inline strings x {replacements, smartquotes, both} x quote shapes x presets; typographer on/off streams "
            "must have equal shape; smartquotes only substitutes quote characters.",
            "atoms in evidence", "3 C19"),
    "C20": ("exploration", "exhaustive enumeration of pump families x sizes with a deterministic call count",
            "Library call events counted under sys.setprofile for every pump family u^n, u^n w v^n over the atom "
            "alphabet plus the named families at L, 2L, 4L; length-normalised growth must stay below 1.5.",
            "finite sizes, not asymptotics; regex engine internals not counted", "3 C20"),
}


DEFAULT_NA = "check not built yet (work in progress; see DESIGN.md section 3 for the planned exhaustive exploration)"


def main():
    props = [json.loads(l) for l in open(os.path.join(HERE, "properties.jsonl"))]
    checks, na = [], []
    for p in props:
        pid = p["id"]
        if pid in T and os.path.exists(os.path.join(HERE, "mc", "props", pid.lower() + ".py")):
            cat, tech, text, note, ref = T[pid]
            checks.append({
                "property_id": pid,
                "quick_cmd": f"./check {pid} --tier quick",
                "thorough_cmd": f"./check {pid} --tier thorough",
                "evidence_file": f"/verif/evidence/{pid}.json",
                "replay_cmd_template": "./check replay {path}",
                "engine": "mc",
                "level_claimed": {"category": cat, "text": text, "design_ref": "DESIGN.md section " + ref},
                "level_note": note,
                "technique": tech,
            })
        else:
            na.append({"property_id": pid, "reason": DEFAULT_NA})
    man = {
        "version": 1,
        "setup_cmd": "./check selftest",
        "hooks": {
            "guard": "MARKDOWN_IT_PY_VERIF",
            "enable": "no source hooks: checks import /repo's working tree directly (sys.path[0]=/repo, verified at "
                      "start-up); scheduling uses sys.monitoring, fault injection uses the public plugin API",
            "baseline_off_cmd": "/verif/baseline.sh",
            "source_commits": [],
            "add_only": True,
        },
        "engines": [{
            "name": "mc", "path": "/verif/mc",
            "serves_properties": [c["property_id"] for c in checks],
            "kind_free_text": "hand-written explicit-state / bounded-exhaustive explorer driving the real "
                              "markdown-it-py objects (Python, 16 worker processes); controlled thread scheduler "
                              "on sys.monitoring; fault injector on the plugin API",
        }],
        "checks": checks,
        "not_applicable": na,
        "notes": "All checks decide their property by exhaustive enumeration of a stated bounded space on the real "
                 "implementation (no sampling; VERIF_SEED only permutes shard order). Known findings: "
                 "/verif/known_findings.json.",
    }
    with open(os.path.join(HERE, "MANIFEST.json"), "w") as fh:
        json.dump(man, fh, indent=1)
    print("claimed", [c["property_id"] for c in checks], "not_applicable", len(na))


if __name__ == "__main__":
    main()
