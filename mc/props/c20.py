"""C20 - work grows at most linearly on adversarial inputs (deterministic work counts)."""
from __future__ import annotations

import itertools
import os
import sys

from .. import configs as C

ID = "C20"
LEVEL = "exploration"
RULE = ("work = number of function-entry events (and, as a finer second measure, line events) inside the package "
        "during MarkdownIt.render, counted with sys.monitoring - deterministic. Families: the named catalogue of "
        "pathological inputs plus every pump family u^n (units of <=2 atoms; thorough 3), prefix u^n suffix (a run inside a link / image "
        "label, destination, emphasis, quote, list item or definition look-ahead) and u^n w v^n (u, v one "
        "atom, w in {'', a}; thorough two-atom u/v) over a 29-atom alphabet, at input lengths L, 2L, 4L, under "
        "commonmark and js-default(+linkify stub, typographer). Oracle: length-normalised growth "
        "(work(4L)/work(L))/(len(4L)/len(L)) <= 1.5 for both measures (linear = 1, quadratic = 4; a family whose cost per "
        "character only ramps up until nesting reaches maxNesting - growth between 2L and 4L <= 1.25 - counts as linear), calls per "
        "character <= a fixed constant, Python stack depth bounded independently of n. A measurement is aborted "
        "once the count passes the per-character bound (so a super-linear regression ends the check quickly). "
        "Non-trivial = family whose work is at least 3 calls per character; distinct = distinct families measured.")
ASSUMPTIONS = ["finite sizes, not asymptotics", "work inside the regex engine and in mdurl is not counted"]

ATOMS = ["[", "]", "(", ")", "*", "_", "`", "&", ";", "<", ">", "!", "\\", "a", " ", "\n", "> ", "- ", "1. ", "|", "~~",
         "[a]: b\n", "    ", "\t", "#", "=", "-", "\"", "'"]
REFDEF = "[a]: b\n"
# 3x the largest values measured on the unchanged tree (204 / 1025 under commonmark, 846 / 4234 under js-default,
# whose maxNesting is 100 instead of 20)
CALLS_PER_CHAR_MAX = {"commonmark": 700, "js-default": 2600}
LINES_PER_CHAR_MAX = {"commonmark": 3500, "js-default": 13000}
GROWTH_MAX = 1.5
DEPTH_MAX = {"commonmark": 260, "js-default": 1100}

NAMED = {
    "brackets_open": lambda n: "[" * n,
    "brackets_close": lambda n: "]" * n,
    "brackets_nest": lambda n: "[" * n + "a" + "]" * n,
    "brackets_pairs": lambda n: "[]" * n,
    "link_open_run": lambda n: "[a](" * n,
    "link_nest": lambda n: "[" * n + "a" + "](u)" * n,
    "image_nest": lambda n: "![" * n + "a" + "](u)" * n,
    "links_seq": lambda n: "[a](b) " * n,
    "images_seq": lambda n: "![a](b) " * n,
    "link_paren_nest": lambda n: "[a](" + "(" * n + ")" * n + ")",
    "link_unclosed_dest": lambda n: "[a](<" + "b" * n,
    "link_title_unclosed": lambda n: "[a](b \"" + "c" * n,
    "ref_uses": lambda n: "[a][b] " * n,
    "ref_use_lines": lambda n: "[a]\n" * n,
    "stars": lambda n: "*" * n,
    "star_words_open": lambda n: "*a " * n,
    "star_words_close": lambda n: "a* " * n,
    "em_nest": lambda n: "*a " * n + "b" + " a*" * n,
    "strong_nest": lambda n: "**a " * n + "b" + " a**" * n,
    "em_mixed": lambda n: "*a _b " * n,
    "em_alternate": lambda n: "*_" * n + "a" + "_*" * n,
    "underscores_intraword": lambda n: "a_" * n,
    "strike_open": lambda n: "~~a " * n,
    "tildes": lambda n: "~" * n,
    "backticks": lambda n: "`" * n,
    "backtick_words": lambda n: "`a " * n,
    "backtick_lengths": lambda n: "".join("`" * (i % 40 + 1) + "a" for i in range(max(1, n // 21))),
    "bracket_backtick_lengths": lambda n: "[" + "".join("`" * (i % 40 + 1) + "a" for i in range(max(1, n // 21))),
    "image_backtick_lengths": lambda n: "![" + "".join("`" * (i % 40 + 1) + "a" for i in range(max(1, n // 21))) + "](u)",
    "link_backtick_staircase": lambda n: "[" + "".join("`" * (i + 1) + "x" for i in range(max(1, int((2 * n) ** 0.5)))) + "](u)",
    "backtick_staircase": lambda n: "".join("`" * (i + 1) + "x" for i in range(max(1, int((2 * n) ** 0.5)))),
    "entities_amp": lambda n: "&" * n,
    "entities_valid": lambda n: "&amp;" * n,
    "entities_numeric": lambda n: "&#1;" * n,
    "entities_unterminated": lambda n: "&a" * n,
    "lt_run": lambda n: "<" * n,
    "lt_words": lambda n: "<a " * n,
    "html_comment_open": lambda n: "<!--" * n,
    "html_pi_open": lambda n: "<?" * n,
    "autolink_like": lambda n: "<http://a " * n,
    "html_inline_seq": lambda n: "<a>" * n,
    "quote_markers": lambda n: ">" * n,
    "quote_markers_sp": lambda n: "> " * n + "a",
    "quote_lines": lambda n: "> a\n" * n,
    "quote_empty_lines": lambda n: ">\n" * n,
    "list_markers": lambda n: "- " * n + "a",
    "list_lines": lambda n: "- a\n" * n,
    "list_empty_items": lambda n: "-\n" * n,
    "list_staircase": lambda n: "".join(" " * (i % 60) + "- a\n" for i in range(n)),
    "ordered_markers": lambda n: "1. " * n + "a",
    "lazy_quote": lambda n: "> a\n" + "b\n" * n,
    "lazy_list": lambda n: "- a\n" + "b\n" * n,
    "lazy_nested": lambda n: "> - > a\n" + "b\n" * n,
    "table_rows": lambda n: "|a|b|\n|-|-|\n" + "|c|d|\n" * n,
    "table_pipes": lambda n: "|" * n + "\n" + "-|" * n + "\n",
    "table_wide": lambda n: "a|" * n + "\n" + "-|" * n + "\n" + "b|" * n + "\n",
    "pipes_text": lambda n: "|" * n,
    "refdefs": lambda n: "[a]: b\n" * n,
    "refdefs_distinct": lambda n: "".join(f"[l{i}]: /u{i}\n" for i in range(n)),
    "refdefs_blank_separated": lambda n: "[a]: b\n\n" * n,
    "refdef_titles": lambda n: "[a]: b 't'\n" * n,
    "headings": lambda n: "# a\n" * n,
    "setext": lambda n: "a\n===\n" * n,
    "paragraph_lines": lambda n: "a\n" * n,
    "paragraph_long": lambda n: "a " * n,
    "hr_lines": lambda n: "***\n" * n,
    "fence_open": lambda n: "```\n" * n,
    "fence_body": lambda n: "```\n" + "a\n" * n,
    "html_blocks": lambda n: "<div>\n" * n,
    "indented_code": lambda n: "    a\n" * n,
    "backslashes": lambda n: "\\" * n,
    "escapes": lambda n: "\\a" * n,
    "blank_lines": lambda n: "\n" * n,
    "spaces": lambda n: " " * n,
    "tabs": lambda n: "\t" * n,
    "hardbreaks": lambda n: "a  \n" * n,
    "quotes_typo": lambda n: "\"a' " * n,
    # block quotes directly followed by a text line, many times, no blank line anywhere: what the quote's look-ahead
    # absorbs and what the nested parse then accepts
    "quote_then_text": lambda n: "> q\nr\n" * n,
    "quote_blank2_then_text": lambda n: "> q\n>  \nr\n" * n,
    "quote_blanktab_then_text": lambda n: "> q\n>\t\nr\n" * n,
    "quote_blank_then_text": lambda n: "> q\n>\nr\n" * n,
    "quote_hr_then_text": lambda n: "> ---\nr\n" * n,
    "quote_list_then_text": lambda n: "> - a\nr\n" * n,
    "list_then_text": lambda n: "- a\nr\n" * n,
    "list_hr_then_text": lambda n: "- ---\nr\n" * n,
    "dashes_typo": lambda n: "-- ... " * n,
    "linkify_urls": lambda n: "http://a.b " * n,
    "linkify_at": lambda n: "a@b.c " * n,
    "lt_escaped_backslash": lambda n: "<\\\\" * n,
    "bracket_escaped_backslash": lambda n: "[\\\\" * n,
    "backtick_escaped_backslash": lambda n: "`\\\\" * n,
    "amp_escaped_backslash": lambda n: "&\\\\" * n,
    "crlf": lambda n: "a\r\n" * n,
    "nul": lambda n: "\x00" * n,
}

_tool = None
_pkg = None


def _init():
    global _tool, _pkg
    if _tool is None:
        import markdown_it

        _pkg = os.path.dirname(markdown_it.__file__) + os.sep
        mon = sys.monitoring
        _tool = 4
        try:
            mon.use_tool_id(_tool, "mc-cost")
        except ValueError:
            mon.free_tool_id(_tool)
            mon.use_tool_id(_tool, "mc-cost")


class Over(BaseException):
    pass


def cost(md, src, preset="js-default"):
    """(calls, lines, max python stack depth, aborted?)"""
    _init()
    mon = sys.monitoring
    n = [0, 0]
    lim_calls = CALLS_PER_CHAR_MAX[preset] * (len(src) + 50)
    lim_lines = LINES_PER_CHAR_MAX[preset] * (len(src) + 50)
    depth = [0]
    pkg = _pkg

    def on_start(code, off):
        if not code.co_filename.startswith(pkg):
            return mon.DISABLE
        n[0] += 1
        if n[0] & 63 == 0:
            d = 0
            f = sys._getframe(1)
            while f is not None:
                d += 1
                f = f.f_back
            if d > depth[0]:
                depth[0] = d
        if n[0] > lim_calls:
            raise Over()

    def on_line(code, line):
        if not code.co_filename.startswith(pkg):
            return mon.DISABLE
        n[1] += 1
        if n[1] > lim_lines:
            raise Over()

    mon.register_callback(_tool, mon.events.PY_START, on_start)
    mon.register_callback(_tool, mon.events.LINE, on_line)
    mon.set_events(_tool, mon.events.PY_START | mon.events.LINE)
    aborted = False
    try:
        md.render(src)
    except Over:
        aborted = True
    finally:
        mon.set_events(_tool, 0)
    return n[0], n[1], depth[0], aborted


CFGS = {"commonmark": C.cfg("commonmark"),
        "js-default": C.cfg("js-default", {"typographer": True, "linkify": True}, linkify="stub")}


def build_src(fam, L):
    kind = fam[0]
    if kind == "named":
        f = NAMED[fam[1]]
        # choose n so that the input has about L characters
        unit = max(1, len(f(40)) - len(f(20))) / 20.0
        n = max(1, int(L / unit))
        return f(n)
    if kind == "rep":
        u = fam[1]
        return u * max(1, L // len(u))
    if kind == "pre":
        _, pre, u, suf = fam
        return pre + u * max(1, L // len(u)) + suf
    _, u, w, v = fam
    n = max(1, L // (len(u) + len(v)))
    return u * n + w + v * n


EXT_MAX_LEN = 8200  # a family that still ramps up at 4L is measured at 8L, 16L, ... up to this input length


def hot_file(md, src, preset):
    """the library file in which most line events of this render happen (names the call site of a growth finding)"""
    mon = sys.monitoring
    per = {}
    pkg = _pkg
    budget = [LINES_PER_CHAR_MAX[preset] * (len(src) + 50)]

    def on_line(code, line):
        fn = code.co_filename
        if not fn.startswith(pkg):
            return mon.DISABLE
        per[fn] = per.get(fn, 0) + 1
        budget[0] -= 1
        if budget[0] < 0:
            raise Over()

    mon.register_callback(_tool, mon.events.LINE, on_line)
    mon.set_events(_tool, mon.events.LINE)
    try:
        md.render(src)
    except Over:
        pass
    finally:
        mon.set_events(_tool, 0)
    if not per:
        return ""
    fn = max(per, key=per.get)
    return fn[len(pkg):].lstrip("/")


def _cls_of(err):
    return err.split(":")[0].split(" at input")[0].split(" (")[0][:60]


def measure(fam, preset, L, acc):
    """returns (rows, error or None, hot file or None)"""
    from ..core import match_finding

    md = C.build(CFGS[preset])
    rows = []

    def one(mult):
        src = build_src(fam, L * mult)
        c, l, d, ab = cost(md, src, preset)
        rows.append((len(src), c, l, d, ab))
        return src, ab

    def last_growth():
        (l2, c2, n2, d2, _), (l4, c4, n4, d4, _) = rows[-2], rows[-1]
        if l4 <= l2:
            return 0.0, 0.0, 0
        return (c4 / max(1, c2)) / (l4 / l2), (n4 / max(1, n2)) / (l4 / l2), d4 - d2

    def verdict():
        (l1, c1, n1, d1, _) = rows[0]
        (l4, c4, n4, d4, _) = rows[-1]
        gc = (c4 / max(1, c1)) / (l4 / l1)
        gl = (n4 / max(1, n1)) / (l4 / l1)
        gcl, gll, dd = last_growth()
        if gcl <= 1.25:
            gc = min(gc, gcl)
        if gll <= 1.25:
            gl = min(gl, gll)
        dmax = max(r[3] for r in rows)
        if gc > GROWTH_MAX:
            return gc, gl, f"calls grow super-linearly: x{c4 / max(1, c1):.1f} for x{l4 / l1:.1f} input (normalised {gc:.2f})"
        if gl > GROWTH_MAX:
            return gc, gl, f"line events grow super-linearly: x{n4 / max(1, n1):.1f} for x{l4 / l1:.1f} input (normalised {gl:.2f})"
        if dmax > DEPTH_MAX[preset]:
            return gc, gl, f"Python stack depth {dmax} exceeds the nesting-proportional bound"
        if dd > 40 and d4 > 2 * d1:
            return gc, gl, f"Python stack depth grows with the input ({d1} -> {d4})"
        return gc, gl, None

    def hot_of(mult):
        try:
            return hot_file(md, build_src(fam, L * max(1, mult)), preset)
        except Exception:
            return ""

    src = ""
    mult = 1
    try:
        for mult in (1, 2, 4):
            src, ab = one(mult)
            if ab:
                return rows, f"work exceeds the per-character bound at input length {len(src)} (measurement aborted)", None
        if rows[-1][0] <= rows[0][0]:
            return rows, None, None
        gc, gl, err = verdict()
        if err:
            # a family that is a listed finding at L..4L is reported as such; anything else that still grows may be
            # a ramp: work per character rises until nesting reaches maxNesting (100 under js-default) and is flat
            # from there. It is measured further (8L, 16L, ...) until the last doubling is linear or the cap is hit.
            hot = hot_of(2)
            if match_finding(ID, "growth", _cls_of(err), dict(case_of(fam, preset, L), rows=rows, hot=hot)) is not None:
                return rows, err, hot
            while True:
                gcl, gll, dd = last_growth()
                if gcl <= 1.25 and gll <= 1.25 and dd <= 40:
                    break
                if len(src) * 2 > EXT_MAX_LEN or rows[-1][0] <= rows[-2][0]:
                    break
                mult *= 2
                acc.count("extended_measurements")
                src, ab = one(mult)
                if ab:
                    return rows, f"work exceeds the per-character bound at input length {len(src)} (measurement aborted)", None
            gc, gl, err = verdict()
    except RecursionError:
        return None, f"RecursionError at input length {len(build_src(fam, L * mult))}", None
    except Exception:
        return None, None, None  # crashes are C01's
    l4, c4, n4 = rows[-1][0], rows[-1][1], rows[-1][2]
    acc.maxi("growth_calls_max_x1000", int(gc * 1000)) if not _has_refdef(fam) else None
    acc.maxi("growth_lines_max_x1000", int(gl * 1000)) if not _has_refdef(fam) else None
    acc.maxi("calls_per_char_max", max(int(r[1] / r[0]) for r in rows))
    acc.maxi("lines_per_char_max", max(int(r[2] / r[0]) for r in rows))
    acc.maxi("stack_depth_max_" + preset, max(r[3] for r in rows))
    if c4 / l4 >= 3:
        acc.sig((fam, preset))
    if err is None:
        return rows, None, None
    return rows, err, hot_of(mult // 2)


def _has_refdef(fam):
    if fam[0] == "named":
        return fam[1].startswith("refdef")
    return REFDEF in "".join(fam[1:])


def case_of(fam, preset, L):
    return {"family": list(fam), "preset": preset, "L": L, "refdef": "yes" if _has_refdef(fam) else "no"}


def families(tier):
    th = tier == "thorough"
    fams = [("named", k) for k in NAMED]
    for k in ((1, 2, 3) if th else (1, 2)):
        for combo in itertools.product(ATOMS, repeat=k):
            if k == 3 and REFDEF in combo:
                continue
            fams.append(("rep", "".join(combo)))
    for u in ATOMS:
        for v in ATOMS:
            for w in ("", "a"):
                fams.append(("nest", u, w, v))
    # a run inside a label / container look-ahead: prefix + u^n (+ closing suffix)
    for pre, suf in (("[", ""), ("[", "](x)"), ("![", "](x)"), ("[a](", ""), ("*", ""), ("> ", ""), ("- ", ""), ("[a]: ", "")):
        for u in ATOMS:
            if u != REFDEF:
                fams.append(("pre", pre, u, suf))
    if th:
        short = [a for a in ATOMS if a not in (REFDEF, "    ")]
        for u in itertools.product(short, repeat=2):
            for v in short:
                fams.append(("nest", "".join(u), "a", v))
                fams.append(("nest", v, "a", "".join(u)))
    return fams


def bounds(tier):
    th = tier == "thorough"
    return {"atoms": ATOMS, "named_families": len(NAMED), "families": len(families(tier)), "L": 500 if th else 400,
            "L_named_thorough": [500, 5000, 25000] if th else None,
            "sizes": f"L, 2L, 4L; while the last doubling still grows faster than the input (x1.25): 8L, 16L, ... up to {EXT_MAX_LEN} characters",
            "presets": list(CFGS), "growth_max": GROWTH_MAX, "calls_per_char_max": CALLS_PER_CHAR_MAX,
            "lines_per_char_max": LINES_PER_CHAR_MAX, "stack_depth_max": DEPTH_MAX}


def shards(tier):
    th = tier == "thorough"
    fams = families(tier)
    sh = []
    for preset in CFGS:
        use = fams
        if not th and preset == "js-default":
            # quick: the second preset only on the named catalogue and the one-atom pumps
            use = [f for f in fams if f[0] in ("named", "pre") or (f[0] == "rep" and f[1] in ATOMS)]
        for i in range(0, len(use), 12):
            sh.append(("fams", preset, use[i:i + 12], 500 if th else 400))
    if th:
        for preset in CFGS:
            for k in NAMED:
                for L in (5000, 25000):
                    sh.append(("named", preset, k, L))
    return sh


def run_shard(sh, acc):
    if sh[0] == "fams":
        _, preset, fams, L = sh
        fams = [tuple(f) for f in fams]
        for fam in fams:
            acc.case(3)
            rows, err, hot = measure(fam, preset, L, acc)
            if err:
                acc.violation("growth", _cls_of(err), dict(case_of(fam, preset, L), rows=rows, hot=hot or ""), err)
                if sum(v[0] for v in acc.viol.values()) >= 3:
                    acc.count("shards_cut_short_after_3_violations")
                    break  # (each further super-linear family costs an extended measurement; the verdict stands)
        acc.sample("growth", dict(case_of(fams[0], preset, L), src_prefix=build_src(fams[0], L)[:40]), 1)
    else:
        _, preset, k, L = sh
        fam = ("named", k)
        acc.case(3)
        rows, err, hot = measure(fam, preset, L, acc)
        if err:
            acc.violation("growth", err.split(":")[0].split(" at input")[0].split(" (")[0][:60], dict(case_of(fam, preset, L), rows=rows, hot=hot or ""), err)
        acc.sample("growth", dict(case_of(fam, preset, L), src_prefix=build_src(fam, L)[:40]), 1)


def check_case(case, acc):
    fam = tuple(case["family"])
    acc.case(3)
    rows, err, hot = measure(fam, case["preset"], case["L"], acc)
    if err:
        acc.violation("growth", err.split(":")[0].split(" at input")[0].split(" (")[0][:60], dict(case_of(fam, case["preset"], case["L"]), rows=rows, hot=hot or ""), err)
