#!/bin/sh
# pinned baseline with hooks off (there are no hooks): 875 pass, 32 linkify tests always fail (optional module absent)
cd "${1:-/repo}" && exec /venv/bin/python -m pytest -ra -q -p no:cacheprovider --timeout=900 --continue-on-collection-errors
