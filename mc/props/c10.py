"""C10 - rule and option switches have exactly their documented effect."""
from __future__ import annotations

import itertools
import re

from .. import configs as C
from .. import inputs as I
from .. import spaces as S
from ..core import CRASH

ID = "C10"
LEVEL = "exploration"
RULE = ("documents (free line shapes K<=2, inline atoms L<=3, core set) x every configuration within d switch toggles "
        "of each preset: (1) token types must be producible by the enabled rules/options, env.references only with "
        "the reference rule, get_active_rules reflects the switches; (1b) a disabled rule is indistinguishable from "
        "the same rule replaced by a never-matching stub (no residual effect, e.g. as paragraph terminator), and "
        "html/typographer/linkify options off equal their rules off; (1c) with `code` off an indented leaf parses as "
        "the unindented leaf; (2) table/strikethrough on/off give identical tokens on inputs without | / ~~; "
        "(3) inline_definitions/store_labels only add definition tokens and label meta, env and HTML unchanged up to "
        "line breaks after a tag; (4) the three option routes give equal options and outputs. Non-trivial = a "
        "document containing at least one construct of an optional rule; distinct = distinct (sub-check, config, "
        "token-type set).")
ASSUMPTIONS = ["d<=1 (quick) / d<=2 (thorough) neighbourhoods of the presets, not all 2^23 subsets",
               "the attribute route exists only for the nine classic options (OptionsDict defines no attribute for "
               "inline_definitions/store_labels)"]

TABLE_T = {"table_open", "table_close", "thead_open", "thead_close", "tbody_open", "tbody_close", "tr_open",
           "tr_close", "th_open", "th_close", "td_open", "td_close"}
ALWAYS = {"paragraph_open", "paragraph_close", "inline", "text"}


def allowed_types(on, html, inline_defs):
    a = set(ALWAYS)
    if "table" in on:
        a |= TABLE_T
    if "emphasis" in on:
        a |= {"em_open", "em_close", "strong_open", "strong_close"}
    if "strikethrough" in on:
        a |= {"s_open", "s_close"}
    if "backticks" in on:
        a.add("code_inline")
    if "newline" in on or "escape" in on:
        a.add("hardbreak")
    if "newline" in on:
        a.add("softbreak")
    if "link" in on or "autolink" in on or "linkify" in on:
        a |= {"link_open", "link_close"}
    if "image" in on:
        a.add("image")
    if html and "html_block" in on:
        a.add("html_block")
    if html and "html_inline" in on:
        a.add("html_inline")
    if "heading" in on or "lheading" in on:
        a |= {"heading_open", "heading_close"}
    if "hr" in on:
        a.add("hr")
    if "code" in on:
        a.add("code_block")
    if "fence" in on:
        a.add("fence")
    if "blockquote" in on:
        a |= {"blockquote_open", "blockquote_close"}
    if "list" in on:
        a |= {"bullet_list_open", "bullet_list_close", "ordered_list_open", "ordered_list_close", "list_item_open",
              "list_item_close"}
    if "reference" in on and inline_defs:
        a.add("definition")
    return a


def all_types(tokens, out=None):
    out = set() if out is None else out
    for t in tokens:
        out.add(t.type)
        if t.children:
            all_types(t.children, out)
    return out


# ---- (1) ---------------------------------------------------------------------------------------------------
def sub_types(md, c, src, acc):
    env = {}
    toks = acc.call(md.parse, src, env)
    if toks is CRASH:
        return None
    on = C.rules_on(c)
    if "linkify" in on and not (md.options["linkify"] and md.linkify):
        on = on - {"linkify"}
    allowed = allowed_types(on, bool(md.options["html"]), bool(md.options.get("inline_definitions")))
    ts = all_types(toks)
    if len(ts) > 4:
        acc.sig(("types", C.key(c), tuple(sorted(ts))))
    extra = ts - allowed - {"text_special"}
    if extra:
        return f"token type(s) {sorted(extra)} without an enabled producing rule"
    if "reference" not in on and (env.get("references") or env.get("duplicate_refs")):
        return "env.references filled with the reference rule off"
    return None


def active_agrees(md, c):
    on = C.rules_on(c)
    act = md.get_active_rules()
    flat = set(act["block"]) | set(act["inline"]) | set(act["core"])
    for r in C.RULE_SW:
        if (r in on) != (r in flat):
            return f"get_active_rules disagrees with the switches on {r}"
    for r in ("emphasis", "strikethrough"):
        if (r in on) != (r in act["inline2"]):
            return f"get_active_rules()['inline2'] disagrees with the switches on {r}"
    return None


# ---- (1b) disabled == stubbed ------------------------------------------------------------------------------
def _never_block(state, startLine, endLine, silent):
    return False


def _never_inline(state, silent):
    return False


def _noop(state):
    return None


def stubbed(base, rules):
    md = C.build(base, fresh=True)
    for r in rules:
        for ruler, stub in ((md.block.ruler, _never_block), (md.inline.ruler, _never_inline), (md.core.ruler, _noop),
                            (md.inline.ruler2, _noop)):
            for rule in ruler.__rules__:
                if rule.name == r:
                    ruler.at(r, stub, {"alt": list(rule.alt)})
    return md


STUB_RULES = [r for r in C.RULE_SW if r != "code"]
BASES = [C.cfg("commonmark", {"typographer": True, "linkify": True}, enable=["table", "strikethrough", "linkify", "replacements", "smartquotes"], linkify="stub"),
         C.cfg("js-default", {"typographer": True, "linkify": True}, linkify="stub")]
_pair_cache = {}


def stub_pair(bi, rules):
    k = (bi, tuple(rules))
    if k not in _pair_cache:
        base = BASES[bi]
        dis = C.build(base, fresh=True)
        dis.disable(list(rules))
        _pair_cache[k] = (dis, stubbed(base, rules))
    return _pair_cache[k]


def sub_stub(bi, rules, src, acc):
    dis, stb = stub_pair(bi, rules)
    e1, e2 = {}, {}
    a = acc.call(dis.parse, src, e1)
    b = acc.call(stb.parse, src, e2)
    if a is CRASH or b is CRASH:
        return None
    A = [t.as_dict() for t in a]
    acc.sig(("stub", bi, tuple(rules), tuple(t.type for t in a[:6])))
    if A != [t.as_dict() for t in b]:
        return f"disabling {list(rules)} differs from replacing them by never-matching rules"
    if e1 != e2:
        return f"disabling {list(rules)}: env differs from the never-matching replacement"
    return None


OPT_EQ = [("html", False, ["html_block", "html_inline"]), ("typographer", False, ["replacements", "smartquotes"]),
          ("linkify", False, ["linkify"])]
_opt_cache = {}


def sub_opt_rules(bi, oi, src, acc):
    k = (bi, oi)
    if k not in _opt_cache:
        base = BASES[bi]
        name, val, rules = OPT_EQ[oi]
        o = dict(base.get("opts") or {})
        o["html"] = True
        m1 = C.build(C.cfg(base["preset"], {**o, name: val}, base.get("enable", ()), (), base.get("linkify")), fresh=True)
        m2 = C.build(C.cfg(base["preset"], o, base.get("enable", ()), (), base.get("linkify")), fresh=True)
        m2.disable(rules)
        _opt_cache[k] = (m1, m2)
    m1, m2 = _opt_cache[k]
    a = acc.call(m1.parse, src)
    b = acc.call(m2.parse, src)
    if a is CRASH or b is CRASH:
        return None
    if [t.as_dict() for t in a] != [t.as_dict() for t in b]:
        return f"option {OPT_EQ[oi][0]}=False differs from disabling {OPT_EQ[oi][2]}"
    return None


# ---- (1d) replacing a disabled rule keeps it disabled -----------------------------------------------------------
def sub_at_disabled(acc):
    docs = docs_small()[::3] + WARM_DOCS
    for bi, base in enumerate(BASES):
        for r in STUB_RULES:
            acc.case()
            plain = C.build(base, fresh=True)
            plain.disable([r])
            repl = C.build(base, fresh=True)
            repl.disable([r])
            # what a plugin does when it wraps a rule: ruler.at(name, fn, {"alt": ...}) - here with the original fn
            for ruler in (repl.block.ruler, repl.inline.ruler, repl.core.ruler, repl.inline.ruler2):
                for rule in list(ruler.__rules__):
                    if rule.name == r:
                        ruler.at(r, rule.fn, {"alt": list(rule.alt)})
            if plain.get_active_rules() != repl.get_active_rules():
                acc.violation("at", "replacing a disabled rule changes the active rules", {"base": bi, "rule": r},
                              f"ruler.at({r!r}, ...) on a disabled rule: active rules {repl.get_active_rules()} != {plain.get_active_rules()}")
                continue
            acc.sig(("at", bi, r))
            for d in docs:
                x = acc.call(plain.parse, d)
                y = acc.call(repl.parse, d)
                if x is CRASH or y is CRASH:
                    continue
                if [t.as_dict() for t in x] != [t.as_dict() for t in y]:
                    acc.violation("at", "replacing a disabled rule changes the tokens", {"base": bi, "rule": r, "src": d},
                                  f"after ruler.at({r!r}, same function) on the disabled rule the document parses differently")
                    break


# ---- (1c) code off -----------------------------------------------------------------------------------------
# one-block leaves whose continuation lines are not subject to the lazy-continuation indentation quirks
CODE_LEAVES = ["a", "# a", "---", "- a", "1. a", "> a", "```\nx\n```", "[a]: /u", "a|b\n-|-", "<div>"]


def sub_code_off(acc):
    for preset in ("commonmark", "js-default"):
        c = C.cfg(preset, disable=["code"], enable=["table"] if preset == "commonmark" else [])
        md = C.build(c)
        for leaf in CODE_LEAVES:
            ref = acc.call(md.parse, leaf + "\n")
            if ref is CRASH:
                continue
            refsig = [(t.type, t.tag, t.markup, t.content.strip() if t.type == "inline" else "") for t in ref]
            for k in range(4, 9):
                acc.case()
                src = "\n".join(" " * k + l for l in leaf.split("\n")) + "\n"
                got = acc.call(md.parse, src)
                if got is CRASH:
                    continue
                acc.sig(("codeoff", preset, leaf, k))
                gs = [(t.type, t.tag, t.markup, t.content.strip() if t.type == "inline" else "") for t in got]
                if gs != refsig:
                    acc.violation("codeoff", "indented leaf differs with code off", {"cfg": c, "src": src, "leaf": leaf},
                                  f"with the code rule off {src!r} parses to {[g[0] for g in gs]}, "
                                  f"unindented leaf gives {[g[0] for g in refsig]}")


# ---- (2) conservative extensions ---------------------------------------------------------------------------
EXT_BASES = [C.cfg("commonmark"), C.cfg("js-default", disable=["table", "strikethrough"]),
             C.cfg("zero", enable=["emphasis", "list", "blockquote", "heading"])]
_ext = {}


def sub_ext(bi, src, acc):
    if bi not in _ext:
        b = EXT_BASES[bi]
        t = C.build(b, fresh=True)
        t.enable("table")
        s = C.build(b, fresh=True)
        s.enable("strikethrough")
        _ext[bi] = (C.build(b, fresh=True), t, s)
    base, tab, st = _ext[bi]
    e0 = {}
    a = acc.call(base.parse, src, e0)
    if a is CRASH:
        return None
    A = [t.as_dict() for t in a]
    if "|" not in src:
        b = acc.call(tab.parse, src)
        if b is not CRASH and [t.as_dict() for t in b] != A:
            return "enabling table changes the tokens of an input without |"
    if "~~" not in src:
        b = acc.call(st.parse, src)
        if b is not CRASH and [t.as_dict() for t in b] != A:
            return "enabling strikethrough changes the tokens of an input without ~~"
    acc.sig(("ext", bi, tuple(t.type for t in a[:6])))
    return None


# ---- (3) inline_definitions / store_labels -----------------------------------------------------------------
ID_BASES = [C.cfg("commonmark"), C.cfg("js-default")]
_idf = {}


def strip_defs(tokens):
    out = []
    for t in tokens:
        if t.type == "definition":
            continue
        d = t.as_dict(children=False)
        d["meta"] = {k: v for k, v in d["meta"].items() if k != "label"}
        d["children"] = strip_defs(t.children) if t.children else t.children
        out.append(d)
    return out


def html_norm(h):
    return re.sub(r">\n+", ">", h)


def sub_idef(bi, src, acc):
    if bi not in _idf:
        b = ID_BASES[bi]
        _idf[bi] = (C.build(b, fresh=True),
                    C.build(C.cfg(b["preset"], {"inline_definitions": True, "store_labels": True}), fresh=True),
                    C.build(C.cfg(b["preset"], {"inline_definitions": True}), fresh=True),
                    C.build(C.cfg(b["preset"], {"store_labels": True}), fresh=True))
    base, both, idf, stl = _idf[bi]
    e0 = {}
    a = acc.call(base.parse, src, e0)
    if a is CRASH:
        return None
    sa = strip_defs(a)  # before rendering: the image render rule writes the alt attribute back into the token
    ha = acc.call(base.renderer.render, a, base.options, e0)
    for name, m in (("inline_definitions+store_labels", both), ("inline_definitions", idf), ("store_labels", stl)):
        e1 = {}
        b = acc.call(m.parse, src, e1)
        if b is CRASH:
            continue
        sb = strip_defs(b)
        if sb != sa:
            return f"{name} changes tokens other than definition tokens / label meta"
        if e1 != e0:
            return f"{name} changes env"
        if name == "store_labels" and any(t.type == "definition" for t in b):
            return "store_labels alone adds definition tokens"
        if name == "inline_definitions" and any("label" in (c.meta or {}) for t in b for c in (t.children or [])):
            return "inline_definitions alone adds label meta"
        hb = acc.call(m.renderer.render, b, m.options, e1)
        if ha is not CRASH and hb is not CRASH and html_norm(hb) != html_norm(ha):
            return f"{name} changes the rendered HTML beyond line breaks after a tag"
    if e0.get("references"):
        acc.sig(("idef", bi, src))
    return None


# ---- (4) option routes -------------------------------------------------------------------------------------
def _hl(code, lang, attrs):
    return "<pre><code>HL:" + lang + "</code></pre>"


ROUTE_OPTS = [("maxNesting", 2), ("maxNesting", 50), ("html", True), ("html", False), ("linkify", True),
              ("typographer", True), ("quotes", "abcd"), ("quotes", ["<<", ">>", "<", ">"]), ("xhtmlOut", True),
              ("xhtmlOut", False), ("breaks", True), ("langPrefix", "l-"), ("highlight", _hl)]
ROUTE_OPTS2 = [("inline_definitions", True), ("store_labels", True)]
PROBES = ["a *b* `c`\n\n> q\n> > r\n\n- l\n  - m\n    - n\n", "<div>x</div>\n\na <b>c</b>\n", "\"q\" -- 'r' (c) ...\n",
          "```py\nx\n```\n\n![i](j)  \nk\nl\n", "http://a.b www.c.d\n", "[r]\n\n[r]: /u 't'\n", "|a|b|\n|-|-|\n|c|d|\n"]


def json_safe(d):
    return {k: (v if not callable(v) else "fn") for k, v in d.items()}


def sub_routes(acc):
    from markdown_it import MarkdownIt
    from ..configs import StubLinkify

    defaults = {p: json_safe(dict(MarkdownIt(p).options)) for p in ("commonmark", "js-default", "zero", "gfm-like")}
    for preset in ("commonmark", "js-default", "zero", "gfm-like"):
        for opts, routes in ((ROUTE_OPTS, 3), (ROUTE_OPTS2, 2)):
            for k, v in opts:
                acc.case()
                mds = [MarkdownIt(preset, {k: v}), MarkdownIt(preset)]
                mds[1].options[k] = v
                if routes == 3:
                    m3 = MarkdownIt(preset)
                    setattr(m3.options, k, v)
                    mds.append(m3)
                for m in mds:
                    m.linkify = StubLinkify()
                    if preset in ("commonmark", "zero") and k == "linkify":
                        m.enable("linkify")
                ref_opts = dict(mds[0].options)
                outs = None
                for i, m in enumerate(mds):
                    if dict(m.options) != ref_opts:
                        acc.violation("routes", f"options differ for {k}", {"preset": preset, "opt": k, "value": repr(v), "route": i},
                                      f"route {i} gives options {dict(m.options)!r}, constructor route {ref_opts!r}")
                        break
                    if getattr(m.options, k, None) != v and routes == 3:
                        acc.violation("routes", f"attribute read differs for {k}", {"preset": preset, "opt": k, "value": repr(v), "route": i},
                                      f"options.{k} reads {getattr(m.options, k, None)!r} after setting {v!r}")
                        break
                    o = []
                    for p in PROBES:
                        r = acc.call(m.render, p)
                        o.append(None if r is CRASH else r)
                    if outs is None:
                        outs = o
                    elif o != outs:
                        acc.violation("routes", f"outputs differ for {k}", {"preset": preset, "opt": k, "value": repr(v), "route": i},
                                      f"route {i} renders the probes differently from the constructor route")
                        break
                acc.sig(("routes", preset, k, repr(v), tuple(outs or ())))
                now = json_safe(dict(MarkdownIt(preset).options))
                if now != defaults[preset]:
                    acc.violation("routes", "a later plain instance of the preset inherits an earlier options_update",
                                  {"preset": preset, "opt": k, "value": repr(v), "route": 0},
                                  f"MarkdownIt({preset!r}) now has options {now}, the preset's defaults are {defaults[preset]}")
                    defaults[preset] = now
    acc.sample("routes", {"preset": "commonmark", "opt": "breaks", "value": True}, 1)


# ---- (5) switching after use = switching before use --------------------------------------------------------
WARM_DOCS = ["*a* `b` ~~c~~ [d](e) ![f](g) <h@i.j> &amp; \\* <b>\n\n> q\n\n- l\n\n    code\n\n# h\n\nt\n===\n\n***\n\n```\nf\n```\n\n|a|\n|-|\n\n[r]: /u\n\n<div>\n",
             "\"q\" -- (c) http://x.y\n"]
TOGGLE_OPTS = [("html", True), ("html", False), ("typographer", True), ("typographer", False), ("linkify", True),
               ("linkify", False), ("breaks", True), ("xhtmlOut", True), ("langPrefix", "l-"), ("maxNesting", 2),
               ("quotes", "abcd"), ("inline_definitions", True), ("store_labels", True)]


def _mk(base):
    from ..configs import StubLinkify

    md = C.build(base, fresh=True)
    md.linkify = StubLinkify()
    return md


TOGGLE_FIRSTS = [None, ("disable", "code"), ("disable", "table"), ("item", "html", False)]


def sub_toggle(bi, acc, fi=None, part=None, nparts=1):
    """for every rule switch and option: an instance that has already parsed, then is reconfigured, must behave
    like an instance configured the same way before its first parse"""
    base = BASES[bi]
    docs = docs_small()[::4] + WARM_DOCS + ["    # a\n", "\ta\n", "  - a\n\n      b\n"]
    actions = []
    for r in C.RULE_SW:
        actions.append(("disable", r))
        actions.append(("enable", r))
    for k, v in TOGGLE_OPTS:
        actions.append(("item", k, v))
        if k not in ("inline_definitions", "store_labels"):
            actions.append(("attr", k, v))

    def apply(md, a):
        if a[0] == "disable":
            md.disable(a[1])
        elif a[0] == "enable":
            md.enable(a[1])
        elif a[0] == "item":
            md.options[a[1]] = a[2]
        else:
            setattr(md.options, a[1], a[2])

    for first in (TOGGLE_FIRSTS if fi is None else [TOGGLE_FIRSTS[fi]]):
        for ai, a in enumerate(actions):
            if part is not None and ai % nparts != part:
                continue
            acc.case()
            used = _mk(base)
            fresh = _mk(base)
            if first:
                apply(used, first)
                apply(fresh, first)
            for w in WARM_DOCS:
                acc.call(used.render, w)
            apply(used, a)
            apply(fresh, a)
            acc.sig(("toggle", bi, first, a))
            for d in docs:
                x = acc.call(used.parse, d)
                y = acc.call(fresh.parse, d)
                if x is CRASH or y is CRASH:
                    continue
                if [t.as_dict() for t in x] != [t.as_dict() for t in y]:
                    acc.violation("toggle", f"switch applied after use differs from before use: {a[:2]}",
                                  {"base": bi, "first": first, "action": list(a), "src": d},
                                  f"after parsing, {a} does not have the effect it has on a fresh instance")
                    break
                hx = acc.call(used.renderer.render, x, used.options, {})
                hy = acc.call(fresh.renderer.render, y, fresh.options, {})
                if hx is not CRASH and hy is not CRASH and hx != hy:
                    acc.violation("toggle", f"switch applied after use renders differently: {a[:2]}",
                                  {"base": bi, "first": first, "action": list(a), "src": d},
                                  f"after parsing, {a} renders differently from a fresh instance")
                    break


PAIR_RULES = ["emphasis", "strikethrough", "table", "fence", "html_inline", "link", "list", "backticks", "heading"]
PAIR_DOCS = WARM_DOCS + ["*a* ~~b~~ `c` <i>d</i> [e](f)\n\n```\ng\n```\n\n|h|\n|-|\n\n- i\n", "    # a\n", "a\n***\nb\n", "~~x~~ **y**\n"]


def sub_toggle_pairs(bi, part, nparts, acc):
    """one enable/disable call with two names (either of which may already be in the requested state) after use"""
    base = BASES[bi]
    n = 0
    for meth in ("disable", "enable"):
        for a in PAIR_RULES:
            for b in PAIR_RULES:
                if a == b:
                    continue
                n += 1
                if n % nparts != part:
                    continue
                for pre in (None, ("disable", [b]), ("disable", [a])):
                    acc.case()
                    used, fresh = _mk(base), _mk(base)
                    for m in (used, fresh):
                        if pre:
                            getattr(m, pre[0])(pre[1])
                    for w in WARM_DOCS:
                        acc.call(used.render, w)
                    for m in (used, fresh):
                        getattr(m, meth)([a, b])
                    acc.sig(("toggle2", bi, meth, a, b, bool(pre)))
                    for d in PAIR_DOCS:
                        x = acc.call(used.render, d)
                        y = acc.call(fresh.render, d)
                        if x is CRASH or y is CRASH:
                            continue
                        if x != y:
                            acc.violation("toggle", f"{meth} of two names applied after use differs from before use",
                                          {"base": bi, "first": pre, "action": [meth, [a, b]], "src": d},
                                          f"after parsing, {meth}({[a, b]}) does not have the effect it has on a fresh instance")
                            break


# ---- driver --------------------------------------------------------------------------------------------------
def docs_small():
    out = list(S.docs(S.FREE_LINES, 2)) + list(S.strings(S.ATOMS, 2)) + I.core_docs()
    seen, res = set(), []
    for d in out:
        if d not in seen:
            seen.add(d)
            res.append(d)
    return res


IDEF_LINES = ["", "a", "[a]: /u", "[a]", "[b]: /v 't'", "> [a]: /w", "- [a]: /x", "[a]:", "/u", "'t'", "[A][]", "![a]",
              "[x][b]", "    [a]: /y", "# [a]", "[a]: <u v>", "[a]: /u (t", "t)", "---"]
EXT_PREF = ["", "> ", "- ", "    ", "1. "]
EXT_LEAF = ["", "a", "# a", "---", "===", "-", "> a", "```", "[a]: /u", "[a]", "~a~", "~~~", "a~", ":-:", "--:", "- -",
            "[a][]", "*a*", "~ ~", "-:", ":-"]


def bounds(tier):
    th = tier == "thorough"
    return {"d": 2 if th else 1, "configs": len(C.neighbourhood(2 if th else 1)), "docs_small": len(docs_small()),
            "stub_rule_sets": "all singletons" + (" and pairs" if th else ""), "stub_bases": BASES,
            "ext_lines": len(S.ctx_lines("", EXT_LEAF)), "ext_K": 3, "idef_lines": IDEF_LINES, "idef_K": 3,
            "route_options": [k for k, _ in ROUTE_OPTS + ROUTE_OPTS2]}


def shards(tier):
    th = tier == "thorough"
    d = 2 if th else 1
    sh = []
    n = len(C.neighbourhood(d))
    for i in range(0, n, 6):
        sh.append(("types", d, i, min(n, i + 6)))
    sets = [(r,) for r in STUB_RULES]
    if th:
        sets += list(itertools.combinations(STUB_RULES, 2))
    for bi in range(len(BASES)):
        for i in range(0, len(sets), 3 if th else 1):
            sh.append(("stub", bi, sets[i:i + (3 if th else 1)]))
        for oi in range(len(OPT_EQ)):
            sh.append(("optrules", bi, oi))
    lines = sorted({p + l for p in EXT_PREF for l in EXT_LEAF})
    for bi in range(len(EXT_BASES)):
        for f in lines:
            sh.append(("ext", bi, f, 3 if (th or bi == 0) else 2))
    for bi in range(len(ID_BASES)):
        for f in IDEF_LINES:
            sh.append(("idef", bi, f, 4 if th else 3))
    sh.append(("routes",))
    sh.append(("codeoff",))
    sh.append(("at",))
    for bi in range(len(BASES)):
        for fi in range(len(TOGGLE_FIRSTS)):
            for part in range(4):
                sh.append(("toggle", bi, fi, part, 4))
        for part in range(8):
            sh.append(("toggle2", bi, part, 8))
    return sh


def run_shard(sh, acc):
    kind = sh[0]
    if kind == "types":
        _, d, lo, hi = sh
        docs = docs_small()
        for c in C.neighbourhood(d)[lo:hi]:
            md = C.build(c)
            r = active_agrees(md, c)
            if r:
                acc.violation("active", r[:50], {"cfg": c}, r)
            for src in docs:
                acc.case()
                r = sub_types(md, c, src, acc)
                if r:
                    acc.violation(kind, re.sub(r"\[.*\]", "_", r), {"cfg": c, "src": src}, r)
        acc.sample(kind, {"cfg": C.neighbourhood(d)[lo], "src": docs[40]}, 1)
    elif kind == "stub":
        _, bi, sets = sh
        docs = docs_small()
        for rules in sets:
            for src in docs:
                acc.case()
                r = sub_stub(bi, tuple(rules), src, acc)
                if r:
                    acc.violation(kind, "disabled rule differs from never-matching stub: " + ",".join(rules),
                                  {"base": bi, "rules": list(rules), "src": src}, r)
        acc.sample(kind, {"base": BASES[bi], "rules": list(sets[0]), "src": docs[50]}, 1)
    elif kind == "optrules":
        _, bi, oi = sh
        for src in docs_small():
            acc.case()
            r = sub_opt_rules(bi, oi, src, acc)
            if r:
                acc.violation(kind, r[:60], {"base": bi, "oi": oi, "src": src}, r)
        acc.sample(kind, {"base": BASES[bi], "option": OPT_EQ[oi][0]}, 1)
    elif kind == "ext":
        _, bi, f, K = sh
        lines = sorted({p + l for p in EXT_PREF for l in EXT_LEAF})
        for src in S.docs_with_first(f, lines, K, both_endings=False):
            acc.case()
            r = sub_ext(bi, src, acc)
            if r:
                acc.violation(kind, r, {"base": bi, "src": src}, r)
        acc.sample(kind, {"base": EXT_BASES[bi], "src": f + "\n~a~\n"}, 1)
    elif kind == "idef":
        _, bi, f, K = sh
        for src in S.docs_with_first(f, IDEF_LINES, K, both_endings=False):
            acc.case()
            r = sub_idef(bi, src, acc)
            if r:
                acc.violation(kind, r, {"base": bi, "src": src}, r)
        acc.sample(kind, {"base": ID_BASES[bi], "src": f + "\n[a]: /u\n"}, 1)
    elif kind == "routes":
        sub_routes(acc)
    elif kind == "codeoff":
        sub_code_off(acc)
        acc.sample(kind, {"src": "    # a\n"}, 1)
    elif kind == "at":
        sub_at_disabled(acc)
        acc.sample(kind, {"history": ["disable('table')", "block.ruler.at('table', fn, alt)", "parse('|a|\\n|-|')"]}, 1)
    elif kind == "toggle2":
        sub_toggle_pairs(sh[1], sh[2], sh[3], acc)
        acc.sample("toggle", {"base": BASES[sh[1]], "history": ["render(warm-up)", "disable(['emphasis', 'strikethrough'])", "render(probe)"]}, 1)
    elif kind == "toggle":
        sub_toggle(sh[1], acc, sh[2], sh[3], sh[4])
        acc.sample(kind, {"base": BASES[sh[1]], "history": ["render(warm-up)", "disable('code')", "parse('    # a')"]}, 1)


def check_case(case, acc):
    sub = case["sub"]
    acc.case()
    if sub == "types":
        md = C.build(case["cfg"], fresh=True)
        r = sub_types(md, case["cfg"], case["src"], acc)
        if r:
            acc.violation(sub, re.sub(r"\[.*\]", "_", r), {"cfg": case["cfg"], "src": case["src"]}, r)
    elif sub == "active":
        md = C.build(case["cfg"], fresh=True)
        r = active_agrees(md, case["cfg"])
        if r:
            acc.violation(sub, r[:50], {"cfg": case["cfg"]}, r)
    elif sub == "stub":
        r = sub_stub(case["base"], tuple(case["rules"]), case["src"], acc)
        if r:
            acc.violation(sub, "disabled rule differs from never-matching stub: " + ",".join(case["rules"]),
                          {k: case[k] for k in ("base", "rules", "src")}, r)
    elif sub == "optrules":
        r = sub_opt_rules(case["base"], case["oi"], case["src"], acc)
        if r:
            acc.violation(sub, r[:60], {k: case[k] for k in ("base", "oi", "src")}, r)
    elif sub == "ext":
        r = sub_ext(case["base"], case["src"], acc)
        if r:
            acc.violation(sub, r, {k: case[k] for k in ("base", "src")}, r)
    elif sub == "idef":
        r = sub_idef(case["base"], case["src"], acc)
        if r:
            acc.violation(sub, r, {k: case[k] for k in ("base", "src")}, r)
    elif sub == "routes":
        sub_routes(acc)
    elif sub == "codeoff":
        sub_code_off(acc)
    elif sub == "at":
        sub_at_disabled(acc)
    elif sub == "toggle":
        if isinstance(case.get("action"), list) and len(case["action"]) == 2 and isinstance(case["action"][1], list):
            sub_toggle_pairs(case["base"], 0, 1, acc)
        else:
            sub_toggle(case["base"], acc)
