"""C11 - rule management is coherent over any history (explicit-state BFS on the real Ruler / MarkdownIt)."""
from __future__ import annotations

import collections
import json

from ..core import CRASH

ID = "C11"
LEVEL = "model_checking"
SERIAL = False
RULE = ("explicit-state breadth-first search to a fixpoint over histories of Ruler operations (getRules on 4 chains; "
        "enable/disable/enableOnly x 7 name arguments x ignoreInvalid; push/before/after/at over names {a,b,z} and alt "
        "sets {none,{x},{x,y}}; at most R rules) on the real Ruler, states = canonical form of every field of the "
        "object (rules with name/enabled/fn-rank/alt, cache content), each state rebuilt by replaying its shortest "
        "history on a fresh object in lockstep with a reference model (list of records). Checked on every "
        "transition: getRules(c) = functions of the model's enabled rules in order filtered by chain; return values; "
        "reported all/active sets = model; a raising call raises KeyError and leaves the reported sets unchanged or "
        "prefix-applied. Second search: the MarkdownIt facade (enable/disable/configure/reset_rules enter+exit/"
        "render) with applied=reported on all four rulers and a probe render equal to a fresh instance set to the "
        "reported sets. distinct_nontrivial = number of distinct states; evaluations = transitions.")

NAMES = ["a", "b", "z"]
ALTS = [(), ("x",), ("x", "y"), ("x", "x"), ("",)]
CHAINS = ["", "x", "y", "w"]


def make_ops(alts=None):
    alts = ALTS if alts is None else alts
    ops = []
    for c in CHAINS:
        ops.append(("getRules", c))
    for meth in ("enable", "disable", "enableOnly"):
        for names in (["a"], ["b"], ["a", "b"], ["z"], ["a", "z"], ["z", "a"], "a"):
            for ign in (False, True):
                ops.append((meth, tuple(names) if isinstance(names, list) else names, ign))
    for n in ("a", "b"):
        for alt in alts:
            ops.append(("push", n, alt))
            for ref in NAMES:
                ops.append(("before", ref, n, alt))
                ops.append(("after", ref, n, alt))
    for ref in NAMES:
        for alt in alts:
            ops.append(("at", ref, alt))
    return ops


OPS = make_ops()


class Model:
    """reference model: a list of [name, enabled, fnid, alt]"""

    def __init__(self):
        self.rules = []

    def copy(self):
        m = Model()
        m.rules = [list(r) for r in self.rules]
        return m

    def find(self, name):
        for i, r in enumerate(self.rules):
            if r[0] == name:
                return i
        return -1

    def all(self):
        return [r[0] for r in self.rules]

    def active(self):
        return [r[0] for r in self.rules if r[1]]

    def chain(self, c):
        return [r[2] for r in self.rules if r[1] and (c == "" or c in r[3])]

    def apply(self, op, fnid):
        """returns ('ok', retval) or ('KeyError', list of acceptable post-states as Model)"""
        k = op[0]
        if k == "getRules":
            return ("ok", self.chain(op[1]))
        if k in ("enable", "disable", "enableOnly"):
            names = list(op[1]) if isinstance(op[1], tuple) else [op[1]]
            ign = op[2]
            before = self.copy()
            if k == "enableOnly":
                for r in self.rules:
                    r[1] = False
            res = []
            for n in names:
                i = self.find(n)
                if i < 0:
                    if ign:
                        continue
                    return ("KeyError", [before, self.copy()])
                self.rules[i][1] = (k != "disable")
                res.append(n)
            return ("ok", res)
        if k == "push":
            self.rules.append([op[1], True, fnid, tuple(op[2])])
            return ("ok", None)
        if k in ("before", "after"):
            i = self.find(op[1])
            if i < 0:
                return ("KeyError", [self.copy()])
            self.rules.insert(i if k == "before" else i + 1, [op[2], True, fnid, tuple(op[3])])
            return ("ok", None)
        if k == "at":
            i = self.find(op[1])
            if i < 0:
                return ("KeyError", [self.copy()])
            self.rules[i][2] = fnid
            self.rules[i][3] = tuple(op[2])
            return ("ok", None)
        raise KeyError(k)


_fns = {}


def fn(k):
    if k not in _fns:
        def f():
            pass
        f.k = k
        _fns[k] = f
    return _fns[k]


def apply_real(r, op, fnid):
    k = op[0]
    try:
        if k == "getRules":
            return ("ok", [f.k for f in r.getRules(op[1])])
        if k in ("enable", "disable", "enableOnly"):
            names = list(op[1]) if isinstance(op[1], tuple) else op[1]
            return ("ok", getattr(r, k)(names, op[2]))
        if k == "push":
            return ("ok", r.push(op[1], fn(fnid), {"alt": list(op[2])}))
        if k == "before":
            return ("ok", r.before(op[1], op[2], fn(fnid), {"alt": list(op[3])}))
        if k == "after":
            return ("ok", r.after(op[1], op[2], fn(fnid), {"alt": list(op[3])}))
        if k == "at":
            return ("ok", r.at(op[1], fn(fnid), {"alt": list(op[2])}))
    except KeyError:
        return ("KeyError", None)
    except Exception as e:  # noqa
        return (type(e).__name__, None)
    raise KeyError(k)


def step(r, m, op, fnid):
    """apply op to the real ruler and the model in lockstep; returns error string or None"""
    mres = m.apply(op, fnid)
    rres = apply_real(r, op, fnid)
    if mres[0] == "ok":
        if rres[0] != "ok":
            return f"{op} raised {rres[0]}, the reference model succeeds"
        if op[0] == "getRules":
            if rres[1] != mres[1]:
                return (f"getRules({op[1]!r}) applies functions {rres[1]}, the rules reported active give {mres[1]} "
                        f"(reported active: {r.get_active_rules()})")
        elif rres[1] != mres[1]:
            return f"{op} returned {rres[1]!r}, expected {mres[1]!r}"
        if r.get_all_rules() != m.all() or r.get_active_rules() != m.active():
            return (f"after {op}: reported all/active = {r.get_all_rules()}/{r.get_active_rules()}, set semantics "
                    f"give {m.all()}/{m.active()}")
        return None
    # model says KeyError
    if rres[0] != "KeyError":
        return f"{op} should raise KeyError (unknown name), got {rres[0]}"
    rep = (r.get_all_rules(), r.get_active_rules())
    # with duplicate names the reported name lists can be ambiguous: pick the candidate by position
    flags = [(x.name, bool(x.enabled)) for x in r.__rules__]
    for cand in mres[1]:
        if rep == (cand.all(), cand.active()) and flags == [(q[0], q[1]) for q in cand.rules]:
            m.rules = cand.rules
            return None
    return f"after failed {op}: reported sets {rep} are neither unchanged nor prefix-applied"


def build(hist, ruler_cls):
    r = ruler_cls()
    m = Model()
    for i, op in enumerate(hist):
        step(r, m, op, i + 1)
    return r, m


def canon(r):
    rank = {}

    def rk(f):
        if id(f) not in rank:
            rank[id(f)] = len(rank)
        return rank[id(f)]

    rules = tuple((x.name, x.enabled, rk(x.fn), tuple(x.alt)) for x in r.__rules__)
    cache = r.__cache__
    c = None if cache is None else tuple(sorted((k, tuple(rk(f) for f in v)) for k, v in cache.items()))
    return (rules, c)


def bfs_ruler(maxr, start, acc, sub, nalts=None):
    from markdown_it.ruler import Ruler

    OPS = make_ops(ALTS[:nalts] if nalts else ALTS)

    seen = {}
    r0, _ = build(start, Ruler)
    seen[canon(r0)] = list(start)
    frontier = collections.deque([list(start)])
    trans = 0
    maxdepth = 0
    reported = 0
    while frontier:
        h = frontier.popleft()
        maxdepth = max(maxdepth, len(h) - len(start))
        nrules = len(build(h, Ruler)[0].__rules__)
        for op in OPS:
            if op[0] in ("push", "before", "after") and nrules >= maxr:
                continue
            r, m = build(h, Ruler)
            trans += 1
            err = step(r, m, op, len(h) + 1)
            if err:
                if reported < 50:
                    reported += 1
                    acc.violation(sub, _cls(op, err), {"start": start, "history": h, "op": op, "maxr": maxr}, err)
                # continue exploring from the erroneous state as well (it is a reachable state)
            k = canon(r)
            if k not in seen:
                seen[k] = h + [op]
                frontier.append(h + [op])
    acc.case(trans)
    acc.count("states", len(seen))
    acc.count("transitions", trans)
    acc.count("traces_validated_against_impl", trans)
    acc.maxi("bfs_depth_ruler", maxdepth)
    for k in seen:
        acc.sig(("ruler", sub, k))
    hs = sorted(seen.values(), key=len)
    acc.sample(sub, {"history": hs[min(len(hs) - 1, 40)], "note": "shortest history of one explored state"}, 1)
    acc.sample(sub, {"history": hs[-1], "note": "a deepest explored state"}, 2)


def _cls(op, err):
    if "applies functions" in err:
        return "applied rules differ from the rules reported active"
    if "reported sets" in err or "reported all/active" in err:
        return f"reported sets wrong after {op[0]}"
    return f"{op[0]}: " + err.split(",")[0][:50]


# ---- facade ------------------------------------------------------------------------------------------------
F_NAMES = [("emphasis",), ("table",), ("nope",), ("emphasis", "nope"), ("nope", "table"), "strikethrough", ("code",),
           ("marker",), ("marker", "emphasis")]
BAD_PRESET = {"options": {"maxNesting": 20, "html": False, "linkify": False, "typographer": False, "quotes": "“”‘’",
                          "xhtmlOut": False, "breaks": False, "langPrefix": "language-", "highlight": None},
              "components": {"core": {"rules": ["normalize", "block", "inline", "text_join"]},
                             "block": {"rules": ["paragraph", "list"]},
                             "inline": {"rules": ["text", "emphasis", "nope"], "rules2": ["balance_pairs", "emphasis", "fragments_join"]}}}
PROBE = "*a* ~~b~~ `c`\n\n|a|\n|-|\n\n> q\n\n- l\n\nz\n\n    # indented\n"


def f_ops(quick):
    ops = [("render",)]
    for meth in ("enable", "disable"):
        for names in F_NAMES:
            for ign in (False, True):
                ops.append((meth, names, ign))
    ops += [("configure", "commonmark"), ("configure", "zero"), ("configure", "BAD")]
    if not quick:
        ops.append(("configure", "js-default"))
    ops += [("enter",), ("exit",), ("exit_exc",)]
    # what a plugin does: register a new rule on one of the rulers (here: an inline rule and its post-processor)
    ops += [("plugin", "inline"), ("plugin", "inline2"), ("plugin", "block")]
    return ops


def _never_inline(state, silent):
    return False


def _never_block(state, startLine, endLine, silent):
    return False


def _noop_state(state):
    return None


class Fac:
    model_error = None

    def __init__(self):
        from markdown_it import MarkdownIt

        self.md = MarkdownIt()
        self.stack = []

    def apply(self, op, max_stack):
        md = self.md
        k = op[0]
        self.model_error = None
        try:
            if k == "render":
                md.render(PROBE)
            elif k == "plugin":
                ruler = {"inline": md.inline.ruler, "inline2": md.inline.ruler2, "block": md.block.ruler}[op[1]]
                if "marker" in ruler.get_all_rules():
                    return "skip"
                if op[1] == "inline":
                    ruler.push("marker", _never_inline)
                elif op[1] == "inline2":
                    ruler.push("marker", _noop_state)
                else:
                    ruler.before("paragraph", "marker", _never_block, {"alt": ["paragraph"]})
            elif k in ("enable", "disable"):
                names = list(op[1]) if isinstance(op[1], tuple) else op[1]
                # reference model of the facade: a name is known iff some chain has a rule of that name; every
                # known name is switched in every chain that has it (also when the call then raises for an unknown
                # one); ValueError iff an unknown name is given and ignoreInvalid is false
                allr = md.get_all_rules()
                before = md.get_active_rules()
                nl = [names] if isinstance(names, str) else list(names)
                exp = {}
                for chain in allr:
                    cur = set(before[chain])
                    for n in nl:
                        if n in allr[chain]:
                            (cur.add if k == "enable" else cur.discard)(n)
                    exp[chain] = [r for r in allr[chain] if r in cur]
                unknown = [n for n in nl if not any(n in allr[c] for c in allr)]
                raised = None
                try:
                    getattr(md, k)(names, op[2])
                except ValueError as e:
                    raised = e
                after = md.get_active_rules()
                if after != exp:
                    self.model_error = f"{k}({names!r}, {op[2]}): active rules {after} differ from set semantics {exp}"
                elif bool(raised) != bool(unknown and not op[2]):
                    self.model_error = (f"{k}({names!r}, {op[2]}) " + ("raised ValueError" if raised else "did not raise")
                                        + f" although unknown names = {unknown}")
                if raised:
                    return "ValueError"
            elif k == "configure":
                md.configure(BAD_PRESET if op[1] == "BAD" else op[1])
            elif k == "enter":
                if len(self.stack) >= max_stack:
                    return "skip"
                cm = md.reset_rules()
                cm.__enter__()
                self.stack.append((cm, md.get_active_rules()))
            elif k in ("exit", "exit_exc"):
                if not self.stack:
                    return "skip"
                cm, saved = self.stack.pop()
                if k == "exit":
                    cm.__exit__(None, None, None)
                else:
                    e = RuntimeError("body failed")
                    try:
                        cm.__exit__(RuntimeError, e, None)
                    except RuntimeError:
                        pass
                # C14 owns what reset_rules must restore on exit; here only coherence is checked
            return "ok"
        except (KeyError, ValueError) as e:
            return type(e).__name__


def f_build(hist, max_stack):
    f = Fac()
    for op in hist:
        f.apply(op, max_stack)
    return f


def f_canon(f):
    """state key of the facade search: the generic heap fingerprint of the instance (every attribute reachable
    from it, so state a refactoring adds - e.g. a cached flag on a parser object - is part of the key) plus the
    saved rule sets of the open reset_rules blocks"""
    from .. import heapwalk

    fp = heapwalk.fingerprint([f.md], with_modules=False)[0]
    stack = tuple(json.dumps(s, sort_keys=True) for _cm, s in f.stack)
    return (fp, stack)


def f_canon_fields(f):
    md = f.md
    parts = []
    for ruler in (md.core.ruler, md.block.ruler, md.inline.ruler, md.inline.ruler2):
        rules = tuple((x.name, x.enabled) for x in ruler.__rules__)
        cache = ruler.__cache__
        if cache is None:
            c = None
        else:
            names = {id(x.fn): x.name for x in ruler.__rules__}
            c = tuple(sorted((k, tuple(names.get(id(fn_), "?") for fn_ in v)) for k, v in cache.items()))
        parts.append((rules, c))
    opts = json.dumps({k: v for k, v in dict(md.options).items() if k != "highlight"}, sort_keys=True)
    stack = tuple(json.dumps(s, sort_keys=True) for _cm, s in f.stack)
    return (tuple(parts), opts, stack)


def f_invariant(f):
    from markdown_it import MarkdownIt

    md = f.md
    for cname, ruler in (("core", md.core.ruler), ("block", md.block.ruler), ("inline", md.inline.ruler),
                         ("inline2", md.inline.ruler2)):
        chains = {""}
        for x in ruler.__rules__:
            chains.update(x.alt)
        rep = set(ruler.get_active_rules())
        for c in sorted(chains):
            exp = [x.fn for x in ruler.__rules__ if x.name in rep and x.enabled and (c == "" or c in x.alt)]
            # reported-active is by name; the applied chain must be exactly those rules' functions, in order
            exp = [x.fn for x in ruler.__rules__ if x.name in rep and (c == "" or c in x.alt)]
            if ruler.getRules(c) != exp:
                got = [getattr(g, "__name__", "?") for g in ruler.getRules(c)]
                return (f"{cname} chain {c!r}: applied rules {got} differ from reported active "
                        f"{ruler.get_active_rules()}")
    # every active rule of the unconditional chains (core, inline2) is really invoked by a parse - also on
    # content without any delimiter run
    called = set()

    def spy(name, fn):
        def w(*a, **k):
            called.add(name)
            return fn(*a, **k)
        return w

    for cname, ruler in (("core", md.core.ruler), ("inline2", md.inline.ruler2)):
        for rule in list(ruler.__rules__):
            ruler.at(rule.name, spy((cname, rule.name), rule.fn), {"alt": list(rule.alt)})
    try:
        md.render("plain text, no delimiters\n\nsecond [l](u) paragraph\n")
    except Exception:
        pass
    for cname, ruler in (("core", md.core.ruler), ("inline2", md.inline.ruler2)):
        want = {(cname, n) for n in ruler.get_active_rules()}
        got = {c for c in called if c[0] == cname}
        if cname == "inline2" and "inline" not in md.core.ruler.get_active_rules():
            continue
        if want != got:
            return f"{cname} chain: rules invoked by a parse {sorted(n for _, n in got)} differ from reported active {sorted(n for _, n in want)}"
    fresh = MarkdownIt("commonmark", {k: v for k, v in dict(md.options).items()})
    act = md.get_active_rules()
    allr = md.get_all_rules()
    if "marker" in allr["inline"]:
        fresh.inline.ruler.push("marker", _never_inline)
    if "marker" in allr["inline2"]:
        fresh.inline.ruler2.push("marker", _noop_state)
    if "marker" in allr["block"]:
        fresh.block.ruler.before("paragraph", "marker", _never_block, {"alt": ["paragraph"]})
    for chain in ("core", "block", "inline"):
        fresh[chain].ruler.enableOnly(act[chain])
    fresh.inline.ruler2.enableOnly(act["inline2"])
    a, b = md.render(PROBE), fresh.render(PROBE)
    if a != b:
        return "probe render differs from a fresh instance configured to the reported active rules"
    return t_invariant(md)


# named terminator chains, observed by behaviour: a never-parsing rule that is a member of chain c only and answers
# "yes" in validation mode on lines carrying its own sentinel ends the look-ahead of construct c at such a line - and
# changes nothing in the look-ahead of any other construct
T_CHAINS = ["paragraph", "reference", "blockquote", "list"]
T_DOCS = {"paragraph": "p1\n{S}x\n", "reference": "[r]: /u\n\"t\n{S}x\nc\"\n", "blockquote": "> q\n{S}x\n",
          "list": "- i\n- {S}x\n"}


def _t_outcome(md, doc):
    env = {}
    toks = md.parse(doc, env)
    refs = env.get("references") or {}
    return (tuple((t.type, t.level, t.content) for t in toks),
            tuple(sorted((k, v.get("href"), v.get("title")) for k, v in refs.items())))


def t_invariant(md):
    ruler = md.block.ruler
    have = {x.name for x in ruler.__rules__}
    if "paragraph" not in have:
        return None

    def mk(sentinel):
        def probe(state, startLine, endLine, silent):
            if not silent:
                return False
            return sentinel in state.src[state.bMarks[startLine]:state.eMarks[startLine]]
        return probe

    for c in T_CHAINS:
        ruler.before("paragraph", "tprobe_" + c, mk(f"@{c[0]}@"), {"alt": [c]})
    act = set(ruler.get_active_rules())
    if "block" not in md.core.ruler.get_active_rules():
        return None
    try:
        for ctx in T_CHAINS:
            if ctx not in act:
                continue
            base = _t_outcome(md, T_DOCS[ctx].replace("{S}", "@n@"))
            for c in T_CHAINS:
                s = f"@{c[0]}@"
                got = _t_outcome(md, T_DOCS[ctx].replace("{S}", s))
                same = repr(got).replace(s, "@n@") == repr(base)
                if c == ctx and same and ("tprobe_" + c) in act:
                    return f"block chain {c!r}: an active member rule of this chain has no effect on the look-ahead of the {ctx} rule"
                if c != ctx and not same:
                    return f"block chain {c!r}: a rule that is only a member of {c!r} changed the look-ahead of the {ctx} rule"
    except Exception as e:
        return f"terminator probe parse raised {type(e).__name__}"
    return None


def bfs_facade(max_stack, max_depth, quick, acc, root=None):
    """root: index of the first operation (the search is split by first operation so that it runs in parallel;
    the sub-searches overlap, which costs time but loses nothing)"""
    ops = f_ops(quick)
    start = [] if root is None else [ops[root]]
    if root is not None and f_build([], max_stack).apply(ops[root], max_stack) == "skip":
        return
    f0 = f_build(start, max_stack)
    seen = {f_canon(f0): list(start)}
    frontier = collections.deque([list(start)])
    if root is not None:
        err = f_invariant(f_build(start, max_stack))
        if err:
            acc.violation("facade", err.split(":")[0][:60] if "chain" in err else err[:60],
                          {"history": start, "max_stack": max_stack}, err)
    trans = 0
    capped = 0
    maxdepth = 0
    reported = 0
    while frontier:
        h = frontier.popleft()
        maxdepth = max(maxdepth, len(h))
        if len(h) >= max_depth:
            capped += 1
            continue
        for op in ops:
            f = f_build(h, max_stack)
            res = f.apply(op, max_stack)
            if res == "skip":
                continue
            trans += 1
            if f.model_error and reported < 50:
                reported += 1
                acc.violation("facade", "facade enable/disable differs from set semantics", {"history": h + [op], "max_stack": max_stack},
                              f.model_error)
            k = f_canon(f)
            if k in seen:
                continue
            seen[k] = h + [op]
            frontier.append(h + [op])
            # invariant in every new state, on a replayed copy so the probe does not perturb the state
            g = f_build(h + [op], max_stack)
            err = f_invariant(g)
            if err and reported < 50:
                reported += 1
                acc.violation("facade", err.split(":")[0][:60] if "chain" in err else err[:60],
                              {"history": h + [op], "max_stack": max_stack}, err)
    acc.case(trans)
    acc.count("states", len(seen))
    acc.count("transitions", trans)
    acc.count("traces_validated_against_impl", trans)
    acc.count("facade_states_at_depth_cap", capped)
    acc.maxi("bfs_depth_facade", maxdepth)
    for k in seen:
        acc.sig(("facade", k))
    hs = sorted(seen.values(), key=len)
    acc.sample("facade", {"history": hs[min(len(hs) - 1, 60)]}, 1)
    acc.sample("facade", {"history": hs[-1]}, 2)


# ---- driver --------------------------------------------------------------------------------------------------
START3 = [("push", "a", ()), ("push", "b", ("x",)), ("push", "a", ("x", "y"))]


def bounds(tier):
    th = tier == "thorough"
    return {"ruler_ops": len(OPS), "names": NAMES, "alts": ALTS, "chains": CHAINS, "max_rules": "3 with 5 alt shapes" + ("; 4 with 3 alt shapes" if th else ""),
            "starts": ["empty", START3], "fixpoint": True,
            "facade_ops": len(f_ops(not th)), "facade_reset_rules_nesting": 2 if th else 1,
            "facade_depth_cap": 6 if th else 4,
            "facade_split": "one sub-search per first operation (overlapping)" if th else "single search"}


def shards(tier):
    th = tier == "thorough"
    # (max rules, start, number of alt-list shapes): 4 rules only with the three plain alt shapes
    sh = [("ruler", 3, "empty", 5), ("ruler", 3, "start3", 5)]
    if th:
        sh.append(("ruler", 4, "empty", 3))
    if th:
        for r in range(len(f_ops(False))):
            sh.append(("facade", 2, 6, False, r))
    else:
        sh.append(("facade", 1, 4, True, None))
    return sh


def run_shard(sh, acc):
    if sh[0] == "ruler":
        _, maxr, start, nalts = sh
        bfs_ruler(maxr, [] if start == "empty" else START3, acc, "ruler-" + start, nalts)
    else:
        _, ms, mdp, quick, root = sh
        bfs_facade(ms, mdp, quick, acc, root)


def check_case(case, acc):
    from markdown_it.ruler import Ruler

    acc.case()
    if case["sub"].startswith("ruler"):
        h = [tuple(tuple(x) if isinstance(x, list) else x for x in op) for op in case["history"]]
        op = tuple(tuple(x) if isinstance(x, list) else x for x in case["op"])
        r, m = build(h, Ruler)
        err = step(r, m, op, len(h) + 1)
        if err:
            acc.violation(case["sub"], _cls(op, err), {k: case[k] for k in ("start", "history", "op", "maxr")}, err)
    else:
        h = [tuple(tuple(x) if isinstance(x, list) else x for x in op) for op in case["history"]]
        g = f_build(h[:-1], case["max_stack"])
        g.apply(h[-1], case["max_stack"])
        if g.model_error:
            acc.violation("facade", "facade enable/disable differs from set semantics", {"history": case["history"], "max_stack": case["max_stack"]},
                          g.model_error)
        g = f_build(h, case["max_stack"])
        err = f_invariant(g)
        if err:
            acc.violation("facade", err.split(":")[0][:60] if "chain" in err else err[:60],
                          {"history": case["history"], "max_stack": case["max_stack"]}, err)
