"""C16 - reference definitions act through env: seeding env equals prepending them."""
from __future__ import annotations

import itertools
import json
import sys

from .. import configs as C
from ..core import CRASH

ID = "C16"
LEVEL = "exploration"
RULE = ("(1) documents D = every sequence of <=3 (thorough 4) blocks from a pool of reference uses and definitions "
        "(in quotes, lists, multi-line titles) x definition blocks R = every sequence of <=2 (thorough 3) "
        "definitions over labels {a, A, ' a  b', ß, SS, é, b} x env histories {seeded by parsing R, seeded twice, "
        "seeded by R then R'}: render(D, env_R) = render(R + blank + D), tokens equal modulo line shift, env equal "
        "modulo shift; in the one-go parse |references|+|duplicate_refs| = definitions written, first definition "
        "wins, every recorded map = the definition's own lines; seeding twice leaves references unchanged and "
        "doubles the duplicates. (2) every cased code point c (upper/lower/casefold/title/swapcase differ): every "
        "case variant of label 'x c y' resolves to '[x c y]: /u'; every blank-run spelling inside/around a label. "
        "(3) all (text, destination, title) triples over 7 x 17 x 12 shapes for links and images: when the "
        "reference form and the inline form both yield the link/image, attrs, children and HTML are equal. "
        "Non-trivial = at least one reference resolved; distinct = distinct (sub-check, rendered HTML) hashes.")

CFGS = [C.cfg("commonmark"), C.cfg("js-default")]

# (block text, number of definitions written, [(first line offset, height) of each definition])
DBLOCKS = [
    ("[a]", 0, []), ("[A][]", 0, []), ("[x][ a ]", 0, []), ("![i][a]", 0, []), ("[ß] [ss] [b]", 0, []),
    ("[x][a  b] [é]", 0, []),
    ("[a]: /d1", 1, [(0, 1)]), ("[A]: /d2 \"t\"", 1, [(0, 1)]), ("> [b]: /d3", 1, [(0, 1)]),
    ("- [a]: /d4", 1, [(0, 1)]), ("[É]: /d5 '\nmulti\nline'", 1, [(0, 3)]), ("[a\n b]:\n/d6", 1, [(0, 3)]),
    ("[b]: /d7\n[ss]: /d8", 2, [(0, 1), (1, 1)]), ("para\n[a]: /not-a-definition", 0, []),
    # a title whose first line ends in a backslash (a literal backslash followed by the line break)
    ("[q]: /d12 \"see [1]\"", 1, [(0, 1)]), ("[q2]: /list[0]\n[q3]: <x y]z> 'w]'", 2, [(0, 1), (1, 1)]),
    ("[É]: /d9 \"x\\\ny\"", 1, [(0, 2)]), ("[t]: /d10 'p\\\nq\\\nr'\n[b]: /d11", 2, [(0, 3), (3, 1)]),
]
RDEFS = ["[a]: /r1", "[A]: /r2 'T'", "[ a  b]: /r3", "[ß]: /r4", "[SS]: /r5", "[é]: /r6", "[b]: </r 7> (t)"]


def shift_tokens(toks, n):
    out = []
    for t in toks:
        d = t.as_dict()
        _shift(d, n)
        out.append(d)
    return out


def _shift(d, n):
    if d.get("map"):
        d["map"] = [d["map"][0] + n, d["map"][1] + n]
    for c in d.get("children") or []:
        if isinstance(c, dict):
            _shift(c, n)


def env_norm(env, n_shift=0, upto=None):
    """env with maps of entries that start at/after line `upto` (in D's numbering) shifted"""
    refs = {}
    for k, v in (env.get("references") or {}).items():
        refs[k] = dict(v)
    dups = [dict(v) for v in (env.get("duplicate_refs") or [])]
    return refs, dups


def sub_seed(md, D, dinfo, R, nR, acc, Rp=None):
    """returns error or None"""
    # one-go parse
    combo = R + "\n" + D
    shift = R.count("\n") + 1
    e1 = {}
    t1 = acc.call(md.parse, combo, e1)
    if t1 is CRASH:
        return None
    h1 = acc.call(md.renderer.render, t1, md.options, e1)
    # seeded
    eR = {}
    tR = acc.call(md.parse, R, eR)
    if tR is CRASH or h1 is CRASH:
        return None
    if tR:
        return None  # R is not made of definitions only in this configuration
    refs_R = json.loads(json.dumps(eR.get("references") or {}))
    dups_R = len(eR.get("duplicate_refs") or [])
    e2 = eR
    t2 = acc.call(md.parse, D, e2)
    if t2 is CRASH:
        return None
    h2 = acc.call(md.renderer.render, t2, md.options, e2)
    if h2 is CRASH:
        return None
    if "<a " in h1 or "<img " in h1:
        acc.sig(("seed", h1))
    if h1 != h2:
        return "render(D, env seeded by R) differs from render(R + blank + D)"
    if shift_tokens(t2, shift) != [t.as_dict() for t in t1]:
        return "tokens of D under a seeded env differ from the one-go parse modulo line shift"
    # env comparison modulo shift: entries originating from D are shifted
    r1 = e1.get("references") or {}
    r2 = e2.get("references") or {}
    if set(r1) != set(r2):
        return "reference label sets differ between seeded and one-go parse"
    for k in r1:
        a, b = dict(r1[k]), dict(r2[k])
        if k in refs_R:
            if b != refs_R[k]:
                return "a definition seeded through env was replaced by a later one (first must win)"
            if a != b:
                return "reference entry from R differs between seeded and one-go parse"
        else:
            b["map"] = [b["map"][0] + shift, b["map"][1] + shift]
            if a != b:
                return "reference entry from D differs (modulo shift) between seeded and one-go parse"
    d1 = [dict(x) for x in (e1.get("duplicate_refs") or [])]
    d2 = [dict(x) for x in (e2.get("duplicate_refs") or [])]
    d2s = []
    for i, x in enumerate(d2):
        if i >= dups_R:
            x = dict(x)
            x["map"] = [x["map"][0] + shift, x["map"][1] + shift]
        d2s.append(x)
    if d1 != d2s:
        return "duplicate_refs differ (modulo shift) between seeded and one-go parse"
    # bookkeeping in the one-go parse
    written = nR + sum(n for _, n, _ in dinfo)
    if len(r1) + len(d1) != written:
        return f"{len(r1)} references + {len(d1)} duplicates recorded for {written} definitions written"
    exp_maps = []
    line = 0
    for rd in R.rstrip("\n").split("\n"):
        exp_maps.append([line, line + 1])
        line += 1
    line = shift
    for text, n, offs in dinfo:
        for o, h in offs:
            exp_maps.append([line + o, line + o + h])
        line += text.count("\n") + 2
    got_maps = sorted([v["map"] for v in r1.values()] + [v["map"] for v in d1])
    if got_maps != sorted(exp_maps):
        return f"recorded definition maps {got_maps} != the definitions' own lines {sorted(exp_maps)}"
    # seeding twice
    e3 = {}
    acc.call(md.parse, R, e3)
    before = json.dumps(e3.get("references"), sort_keys=True)
    nd = len(e3.get("duplicate_refs") or [])
    acc.call(md.parse, R, e3)
    if json.dumps(e3.get("references"), sort_keys=True) != before:
        return "parsing R a second time into the same env changed references"
    if len(e3.get("duplicate_refs") or []) != 2 * nd + nR - nd and len(e3.get("duplicate_refs") or []) != nd + nR:
        return "parsing R twice does not record every repeated definition as a duplicate"
    h3 = acc.call(md.render, D, e3)
    if h3 is not CRASH and h3 != h1:
        return "render(D, env seeded twice by R) differs from render(R + blank + D)"
    if Rp is not None:
        e4 = {}
        acc.call(md.parse, R, e4)
        acc.call(md.parse, Rp, e4)
        h4 = acc.call(md.render, D, e4)
        h5 = acc.call(md.render, R + "\n" + Rp + "\n" + D)
        if h4 is not CRASH and h5 is not CRASH and h4 != h5:
            return "render(D, env seeded by R then R') differs from render(R + R' + D)"
    return None


# ---- (2) labels --------------------------------------------------------------------------------------------
def cased_points():
    out = []
    for cp in range(0x80, sys.maxunicode + 1):
        if 0xD800 <= cp <= 0xDFFF:
            continue
        c = chr(cp)
        vs = {c.upper(), c.lower(), c.casefold(), c.title(), c.swapcase()}
        if vs != {c}:
            out.append(cp)
    return out


def sub_case(md, cp, acc):
    c = chr(cp)
    vs = sorted({c, c.upper(), c.lower(), c.casefold(), c.title(), c.swapcase(), c.lower().upper(), c.upper().lower()})
    for v in vs:
        if any(ch in "[]\\" or ch.isspace() for ch in v):
            continue
        acc.case()
        src = f"[x{v}y]\n\n[x{c}y]: /u\n"
        h = acc.call(md.render, src)
        if h is CRASH:
            continue
        acc.sig(("case", cp % 64, '<a href="/u">' in h))
        if '<a href="/u">' not in h:
            return f"label 'x{v}y' (a case variant of U+{cp:04X}) does not match its definition", src
    return None, None


WS = [" ", "  ", "\t", "\n", " \n ", "\t \t"]


def sub_ws(md, acc):
    for w1 in WS:
        for lead in ("", " ", "\n", "\t"):
            for trail in ("", " ", "\n"):
                for wdef in WS[:4]:
                    acc.case()
                    src = f"[{lead}a{w1}b{trail}]\n\n[a{wdef}b]: /u\n"
                    h = acc.call(md.render, src)
                    if h is CRASH:
                        continue
                    acc.sig(("ws", w1, lead, trail, wdef))
                    if '<a href="/u">' not in h:
                        acc.violation("label-ws", "label with a different blank-run spelling does not match",
                                      {"src": src}, f"{src!r} does not resolve")


# ---- (3) reference form vs inline form ---------------------------------------------------------------------
DEST = ["/l[0]", "<x y]z>", "u", "/a b", "<a b>", "a(b)", "a\\)b", "&amp;", "%20", "é", "<>", "a\\*b", "a&#42;b", "javascript:x", "#f", "?q=1&r",
        "a\"b", "<a\\>b>", "", "[x]:y"]
TITLE = [None, '"s [1]"', "'w]'", '"t"', "'t'", "(t)", '"a\\"b"', '"&amp;"', '"a\nb"', '"é<>"', "'it\\'s'", '""', '"(x)"', "(a\\)b)",
         '"a\\\nb"', "'a\\\n\\\nb'", '"see\n[1]: the note"', "'a\n[r]: /other'", "(a\n> b)", '"a\nb: c\n[d]"',
         # a later title line that starts another block: it ends the definition exactly as it ends the paragraph
         '"a\n- b"', '"a\n1. b"', '"a\n***"', '"a\n# b"', "'a\n```'", '"a\n<div>"']
TEXT = ["x", "*x*", "`c`", "a\\]b", "![i](j)", "&amp;", "[y]"]


_hook_md = {}


def hooked(ci):
    """an instance whose URL policy was customised through the documented hooks (attributes of the instance)"""
    if ci not in _hook_md:
        md = C.build(CFGS[ci], fresh=True)
        md.validateLink = lambda url: not url.startswith("/blocked")
        md.normalizeLink = lambda url: "https://cdn.example" + url if url.startswith("/") else url.replace(" ", "%20")
        _hook_md[ci] = md
    return _hook_md[ci]


def sub_forms(md, ci, text, dest, title, acc):
    tt = "" if title is None else " " + title
    for kind, bang in (("link", ""), ("image", "!")):
        inl = f"{bang}[{text}]({dest}{tt})\n"
        a = acc.call(md.parse, inl)
        if a is CRASH:
            continue
        ha = md.renderer.render(a, md.options, {})
        # the definition written on one line, with the destination on its own line, with the title on its own line
        layouts = [f"[r]: {dest}{tt}\n", f"[r]:\n{dest}{tt}\n"]
        if title is not None:
            layouts.append(f"[r]: {dest}\n {title}\n")
        for lay in layouts:
            acc.case()
            ref = f"{bang}[{text}][r]\n\n" + lay
            b = acc.call(md.parse, ref)
            if b is CRASH:
                continue
            hb = md.renderer.render(b, md.options, {})
            want = "link_open" if kind == "link" else "image"
            fa = a[1].children[0] if len(a) == 3 and a[1].children else None
            fb = b[1].children[0] if len(b) == 3 and b[1].children else None
            ta = fa is not None and fa.type == want
            tb = fb is not None and fb.type == want
            if ta and tb:
                acc.sig(("forms", ha))
                ca = [c.as_dict() for c in a[1].children]
                cb = [c.as_dict() for c in b[1].children]
                if fa.attrs != fb.attrs:
                    return f"{kind}: attrs differ between inline form {fa.attrs} and reference form {fb.attrs}", inl, ref
                if ca != cb:
                    return f"{kind}: inline children differ between inline and reference form", inl, ref
                if ha != hb:
                    return f"{kind}: HTML differs between inline and reference form", inl, ref
            elif ta != tb:
                # destination and title follow one grammar in both forms; only the empty destination differs (a
                # definition needs one, "()" does not)
                if dest != "":
                    return (f"{kind}: only the {'inline' if ta else 'reference'} form is recognised "
                            f"(same destination and title)"), inl, ref
                acc.count("forms_one_sided")
    return None, None, None


# ---- (4) a reference link does not depend on what follows it -------------------------------------------------
TAILS = ["", " z", "(", "()x", "(/x", "(/x \"stale\" y)", "(/x 'stale' y)", "(/x (stale) y)", "(<x> \"s\"", "(/x \"s\"", "[", "[]x", "[nope]",
         "[ ](", "(\n/x \"s\" y)", ": /x"]
REFDEFS4 = ["[foo]: /real", "[foo]: /real 'T'", "[foo]: </re al> \"T\""]


def sub_tail(md, kind, tail, rd, acc):
    bang = "!" if kind == "image" else ""
    base = f"{bang}[foo]\n\n{rd}\n"
    src = f"{bang}[foo]{tail}\n\n{rd}\n"
    a = acc.call(md.parse, base)
    b = acc.call(md.parse, src)
    if a is CRASH or b is CRASH:
        return None
    want = "link_open" if kind == "link" else "image"

    def first(toks):
        for t in toks:
            for c in t.children or []:
                if c.type == want:
                    return c
        return None

    fa, fb = first(a), first(b)
    if fa is None or fb is None:
        return None  # the tail legitimately turned it into something else (e.g. an inline link or a full reference)
    # when it still is the link to the definition's destination it must carry the definition's title too
    if fb.attrs.get("href" if kind == "link" else "src") == fa.attrs.get("href" if kind == "link" else "src") and fb.attrs != fa.attrs:
        return f"{kind}: attrs {fb.attrs} of the reference followed by {tail!r} differ from the reference alone {fa.attrs}"
    acc.sig(("tail", kind, tail, rd))
    return None


# ---- driver --------------------------------------------------------------------------------------------------
def bounds(tier):
    th = tier == "thorough"
    return {"d_blocks": [b[0] for b in DBLOCKS], "D_len": 4 if th else 3, "r_defs": RDEFS, "R_len": 3 if th else 2,
            "cased_code_points": len(cased_points()), "ws_spellings": WS, "dest": DEST, "title": TITLE, "text": TEXT,
            "configs": CFGS}


def shards(tier):
    th = tier == "thorough"
    sh = []
    nD = 4 if th else 3
    for ci in range(len(CFGS)):
        for bi in range(len(DBLOCKS)):
            if th:
                for bj in range(len(DBLOCKS)):
                    sh.append(("seed", ci, bi, bj, nD, 3))
            else:
                sh.append(("seed", ci, bi, None, nD, 2))
    cps = cased_points()
    for i in range(0, len(cps), 200):
        sh.append(("case", i, min(len(cps), i + 200)))
    sh.append(("ws",))
    for ci in range(len(CFGS)):
        for ti in range(len(TEXT)):
            sh.append(("forms", ci, ti))
    sh.append(("tail",))
    return sh


def r_blocks(nR):
    out = []
    for k in range(1, nR + 1):
        for combo in itertools.product(range(len(RDEFS)), repeat=k):
            out.append(combo)
    return out


def run_shard(sh, acc):
    kind = sh[0]
    if kind == "seed":
        _, ci, bi, bj, nD, nR = sh
        md = C.build(CFGS[ci])
        Rs = r_blocks(nR)
        prefixes = [(bi,)] if bj is None else [(bi, bj)]
        for pre in prefixes:
            for k in range(0, nD - len(pre) + 1):
                for rest in itertools.product(range(len(DBLOCKS)), repeat=k):
                    idxs = pre + rest
                    dinfo = [DBLOCKS[i] for i in idxs]
                    D = "\n\n".join(b[0] for b in dinfo) + "\n"
                    if len(idxs) > 2 and bj is None and len(Rs) > 30:
                        use = Rs[::3]
                    else:
                        use = Rs
                    for rc in use:
                        R = "\n".join(RDEFS[i] for i in rc) + "\n"
                        acc.case()
                        Rp = (RDEFS[(rc[0] + 1) % len(RDEFS)] + "\n") if len(rc) == 1 else None
                        r = sub_seed(md, D, dinfo, R, len(rc), acc, Rp)
                        if r:
                            acc.violation("seed", r.split(" recorded")[0][:80] if "recorded" in r else r[:80],
                                          {"cfg": CFGS[ci], "D": list(idxs), "R": list(rc)}, r)
        acc.sample("seed", {"cfg": CFGS[ci], "D": DBLOCKS[bi][0] + "\n\n[a]\n", "R": RDEFS[1] + "\n"}, 1)
    elif kind == "case":
        md = C.build(CFGS[0])
        cps = cased_points()[sh[1]:sh[2]]
        for cp in cps:
            r, src = sub_case(md, cp, acc)
            if r:
                acc.violation("label-case", "case variant of a label does not match", {"cp": cp, "src": src}, r)
        acc.sample("label-case", {"cp": cps[0], "src": f"[x{chr(cps[0]).upper()}y]\n\n[x{chr(cps[0])}y]: /u\n"}, 1)
    elif kind == "ws":
        md = C.build(CFGS[0])
        sub_ws(md, acc)
        acc.sample("label-ws", {"src": "[a\t \tb]\n\n[a b]: /u\n"}, 1)
    elif kind == "tail":
        for c in CFGS:
            md = C.build(c)
            for k in ("link", "image"):
                for tail in TAILS:
                    for rd in REFDEFS4:
                        acc.case()
                        r = sub_tail(md, k, tail, rd, acc)
                        if r:
                            acc.violation("tail", "a reference link depends on the text that follows it", {"cfg": c, "kind": k, "tail": tail, "rd": rd}, r)
        acc.sample("tail", {"src": "[foo](/x \"stale\" y)\n\n[foo]: /real\n"}, 1)
    elif kind == "forms":
        _, ci, ti = sh
        md = C.build(CFGS[ci])
        for dest, title in itertools.product(DEST + ["/blocked/x", "javascript:x2"], TITLE):
            for which, m in (("", md), ("hooks", hooked(ci))):
                r, inl, ref = sub_forms(m, ci, TEXT[ti], dest, title, acc)
                if r:
                    acc.violation("forms", (which + " " + r.split(":")[0] + ":" + r.split(":")[1][:40]).strip(),
                                  {"cfg": CFGS[ci], "text": TEXT[ti], "dest": dest, "title": title, "hooks": which}, r + f" ({inl!r} vs {ref!r})")
        acc.sample("forms", {"cfg": CFGS[ci], "inline": f"[{TEXT[ti]}](/a b \"t\")", "reference": f"[{TEXT[ti]}][r]\n\n[r]: /a b \"t\""}, 1)


def check_case(case, acc):
    sub = case["sub"]
    acc.case()
    if sub == "seed":
        md = C.build(case["cfg"], fresh=True)
        dinfo = [DBLOCKS[i] for i in case["D"]]
        D = "\n\n".join(b[0] for b in dinfo) + "\n"
        rc = case["R"]
        R = "\n".join(RDEFS[i] for i in rc) + "\n"
        Rp = (RDEFS[(rc[0] + 1) % len(RDEFS)] + "\n") if len(rc) == 1 else None
        r = sub_seed(md, D, dinfo, R, len(rc), acc, Rp)
        if r:
            acc.violation("seed", r.split(" recorded")[0][:80] if "recorded" in r else r[:80],
                          {k: case[k] for k in ("cfg", "D", "R")}, r)
    elif sub == "label-case":
        md = C.build(CFGS[0], fresh=True)
        r, src = sub_case(md, case["cp"], acc)
        if r:
            acc.violation(sub, "case variant of a label does not match", {"cp": case["cp"], "src": src}, r)
    elif sub == "label-ws":
        md = C.build(CFGS[0], fresh=True)
        h = md.render(case["src"])
        if '<a href="/u">' not in h:
            acc.violation(sub, "label with a different blank-run spelling does not match", {"src": case["src"]}, "does not resolve")
    elif sub == "tail":
        md = C.build(case["cfg"], fresh=True)
        r = sub_tail(md, case["kind"], case["tail"], case["rd"], acc)
        if r:
            acc.violation("tail", "a reference link depends on the text that follows it", {k: case[k] for k in ("cfg", "kind", "tail", "rd")}, r)
    elif sub == "forms":
        md = C.build(case["cfg"], fresh=True)
        if case.get("hooks"):
            md = hooked(CFGS.index(case["cfg"]) if case["cfg"] in CFGS else 0)
        r, inl, ref = sub_forms(md, 0, case["text"], case["dest"], case["title"], acc)
        if r:
            acc.violation(sub, r.split(":")[0] + ":" + r.split(":")[1][:40], {k: case[k] for k in ("cfg", "text", "dest", "title")}, r)
