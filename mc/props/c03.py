"""C03 - source maps are in range, non-empty, nested, ordered, and cover the input."""
from __future__ import annotations

import re

from .. import configs as C
from .. import inputs as I
from .. import spaces as S
from ..core import CRASH

ID = "C03"
LEVEL = "exploration"
RULE = ("contextual (K<=3 lines in one container context) and free (K<=3) line-shape documents x block-rule "
        "subsets; every token map is checked for range, non-blank start, nesting inside the enclosing opener, "
        "sibling order, non-blank end for leaf blocks, inline content-line containment, and coverage of every "
        "non-blank line by top-level maps or recorded reference definitions. Non-trivial = at least one mapped "
        "token; distinct = distinct (type,map) sequences of the top-level tokens.")

END_NONBLANK = {"paragraph_open", "heading_open", "hr", "code_block", "tr_open"}

CFG_MAIN = [C.cfg("commonmark", enable=["table"]), C.cfg("js-default")]
CFG_OTHER = [C.cfg("js-default", disable=["code"]), C.cfg("commonmark", disable=["list", "blockquote"]),
             C.cfg("zero", enable=["blockquote", "list"])]


def _block_neighbourhood(d):
    return C.neighbourhood(d, switches=C.BLOCK_SW, with_valued=False)


def bounds(tier):
    th = tier == "thorough"
    return {"contexts_main": S.CONTEXTS if th else S.CONTEXTS[:4], "contexts_other": S.CONTEXTS[:6] if th else S.CONTEXTS[:2],
            "K_ctx": 3, "K_free": 3, "leaves": S.LEAVES_SMALL if th else S.LEAVES_TINY,
            "configs_main": CFG_MAIN, "configs_other": CFG_OTHER,
            "separator_leaves": S.SEP_LEAVES, "block_switch_neighbourhood_d": 2 if th else 1, "neighbourhood_configs": len(_block_neighbourhood(2 if th else 1)),
            "neighbourhood_docs": len(I.core_docs())}


def shards(tier):
    th = tier == "thorough"
    sh = I.block_shards(tier, CFG_MAIN, contexts=S.CONTEXTS if th else S.CONTEXTS[:4])
    sh += I.block_shards(tier, CFG_OTHER, contexts=S.CONTEXTS[:6] if th else S.CONTEXTS[:2])
    for f in S.SEP_LEAVES + S.DEF_LEAVES:
        sh.append(("sep", f))
    cfgs = _block_neighbourhood(2 if th else 1)
    for i in range(0, len(cfgs), 4):
        sh.append(("bcfgs", 2 if th else 1, i, min(len(cfgs), i + 4)))
    return sh


def check_maps(src, tokens, env):
    src = src.replace("\r\n", "\n").replace("\r", "\n").replace("\x00", "\ufffd")  # the normalised input
    lines = src.split("\n")
    if lines and lines[-1] == "":
        lines.pop()
    n = len(lines)
    blank = [l.strip(" \t") == "" for l in lines]
    stack = []
    top_cov = set()
    last_end = [0]
    for t in tokens:
        if t.nesting == -1:
            if stack:
                stack.pop()
                last_end.pop()
            continue
        if t.map is not None:
            if not (isinstance(t.map, list) and len(t.map) == 2):
                return f"map shape {t.type} {t.map!r}"
            b, e = t.map
            if not (0 <= b < e <= n):
                return f"range {t.type} {t.map} n={n}"
            if blank[b]:
                return f"starts on blank line {t.type} {t.map}"
            if t.type in END_NONBLANK and blank[e - 1]:
                return f"ends on blank line {t.type} {t.map}"
            for o in reversed(stack):
                if o.map is not None:
                    if not (o.map[0] <= b and e <= o.map[1]):
                        return f"not nested {t.type} {t.map} in {o.type} {o.map}"
                    break
            if t.type != "inline":
                if b < last_end[-1]:
                    return f"order {t.type} {t.map} starts before previous sibling end {last_end[-1]}"
                last_end[-1] = e
            else:
                cl = t.content.split("\n")
                if len(cl) > e - b:
                    return f"inline has more content lines than its map {t.map}"
                par = stack[-1].type if stack else ""
                if par == "paragraph_open" and len(cl) != e - b:
                    return f"paragraph inline content lines {len(cl)} != map span {t.map}"
                for i, c in enumerate(cl):
                    if c.strip() not in lines[b + i]:
                        return f"inline content line {i} not in source line {b + i}"
            if not stack:
                top_cov.update(range(b, e))
        elif t.type == "inline":
            return "inline token without map"
        if t.nesting == 1:
            stack.append(t)
            last_end.append(t.map[0] if t.map else (last_end[-1]))
    refs = list((env.get("references") or {}).values()) + list(env.get("duplicate_refs") or [])
    for d in refs:
        m = d.get("map")
        if not (isinstance(m, list) and len(m) == 2 and 0 <= m[0] < m[1] <= n):
            return f"reference map out of range {m!r} n={n}"
        top_cov.update(range(m[0], m[1]))
    for i in range(n):
        if not blank[i] and i not in top_cov:
            return f"non-blank line {i} not covered by any top-level map"
    return None


def _one(md, src, acc):
    env = {}
    toks = acc.call(md.parse, src, env)
    if toks is CRASH:
        return None
    r = check_maps(src, toks, env)
    if toks:
        acc.sig(tuple((t.type, tuple(t.map) if t.map else None) for t in toks if t.level == 0)[:8])
    return r


def _cls(r):
    return re.sub(r"\[?\d+(, \d+\])?", "N", r)[:70]


def check_case(case, acc):
    md = C.build(case["cfg"], fresh=True)
    acc.case()
    r = _one(md, case["src"], acc)
    if r:
        acc.violation(case["sub"], _cls(r), {"cfg": case["cfg"], "src": case["src"]}, r)


def _iter(sh):
    if sh[0] == "bcfgs":
        _, d, lo, hi = sh
        docs = I.core_docs()
        for c in _block_neighbourhood(d)[lo:hi]:
            for s in docs:
                yield c, s
    else:
        for c, _mode, s in I.iter_shard(sh):
            yield c, s


def run_shard(sh, acc):
    kind = sh[0]
    first = True
    for c, src in _iter(sh):
        md = C.build(c)
        acc.case()
        if first:
            acc.sample(kind, {"cfg": c, "src": src})
            first = False
        r = _one(md, src, acc)
        if r:
            acc.violation(kind, _cls(r), {"cfg": c, "src": src}, r)
