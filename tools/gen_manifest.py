#!/usr/bin/env python3
"""Regenerate /verif/MANIFEST.json from the table below; a property is claimed iff mc/props/<id>.py exists."""
import json
import os

HERE = os.path.dirname(os.path.dirname(os.path.abspath(__file__)))

T = {
    "C01": ("exploration", "bounded-exhaustive enumeration of inputs x configurations on the real parser",
            "Every document of the stated line-shape / atom / nesting / corpus-deviation spaces is parsed and rendered "
            "under every configuration within d switch toggles of each preset; any exception or call-horizon overrun "
            "is a violation. Totality is a universally quantified safety property of a sequential function, so "
            "complete enumeration of a prefix- and product-closed bounded space is the model-checking form of it.",
            "alphabets and bounds as written to evidence; stub linkifier; surrogates excluded", "3 C01"),
    "C02": ("exploration", "bounded-exhaustive enumeration + bracket-discipline stack machine on every stream",
            "Same spaces as C01; each returned stream is run through an independent stack-machine checker "
            "(pairing, tag/markup equality, levels, block flags, children placement, no adjacent text, no specials) "
            "recursively, then SyntaxTreeNode must build.",
            "as C01", "3 C02"),
}

DEFAULT_NA = "check not built yet (work in progress; see DESIGN.md section 3 for the planned exhaustive exploration)"


def main():
    props = [json.loads(l) for l in open(os.path.join(HERE, "properties.jsonl"))]
    checks, na = [], []
    for p in props:
        pid = p["id"]
        if pid in T and os.path.exists(os.path.join(HERE, "mc", "props", pid.lower() + ".py")):
            cat, tech, text, note, ref = T[pid]
            checks.append({
                "property_id": pid,
                "quick_cmd": f"./check {pid} --tier quick",
                "thorough_cmd": f"./check {pid} --tier thorough",
                "evidence_file": f"/verif/evidence/{pid}.json",
                "replay_cmd_template": "./check replay {path}",
                "engine": "mc",
                "level_claimed": {"category": cat, "text": text, "design_ref": "DESIGN.md section " + ref},
                "level_note": note,
                "technique": tech,
            })
        else:
            na.append({"property_id": pid, "reason": DEFAULT_NA})
    man = {
        "version": 1,
        "setup_cmd": "./check selftest",
        "hooks": {
            "guard": "MARKDOWN_IT_PY_VERIF",
            "enable": "no source hooks: checks import /repo's working tree directly (sys.path[0]=/repo, verified at "
                      "start-up); scheduling uses sys.monitoring, fault injection uses the public plugin API",
            "baseline_off_cmd": "/verif/baseline.sh",
            "source_commits": [],
            "add_only": True,
        },
        "engines": [{
            "name": "mc", "path": "/verif/mc",
            "serves_properties": [c["property_id"] for c in checks],
            "kind_free_text": "hand-written explicit-state / bounded-exhaustive explorer driving the real "
                              "markdown-it-py objects (Python, 16 worker processes); controlled thread scheduler "
                              "on sys.monitoring; fault injector on the plugin API",
        }],
        "checks": checks,
        "not_applicable": na,
        "notes": "All checks decide their property by exhaustive enumeration of a stated bounded space on the real "
                 "implementation (no sampling; VERIF_SEED only permutes shard order). Known findings: "
                 "/verif/known_findings.json.",
    }
    with open(os.path.join(HERE, "MANIFEST.json"), "w") as fh:
        json.dump(man, fh, indent=1)
    print("claimed", [c["property_id"] for c in checks], "not_applicable", len(na))


if __name__ == "__main__":
    main()
