"""C07 - top-level blocks are parsed independently: documents compose by concatenation."""
from __future__ import annotations

import itertools
import re

from .. import configs as C
from ..core import CRASH

ID = "C07"
LEVEL = "exploration"
RULE = ("all pairs (A,B): A = newline-terminated tab-free line-shape documents of <=K lines that are *closed* "
        "(decided operationally: a probe paragraph after a blank line starts a new top-level block), B = documents "
        "of <=2 lines starting at column 0; seam exclusion list+list-marker-line; block tokens (children dropped) "
        "of parse(A+NL+B) must equal those of parse(A+NL) followed by parse(B) shifted by lines(A)+1. "
        "Non-trivial = closed A with at least one block; distinct = distinct (last block type of A, first block "
        "type of B, equality verdict) plus distinct A block-type sequences.")

PREF = ["", "> ", "- ", "  ", "    ", "1. "]
LEAF = ["", "a", "# a", "---", "===", "- a", "-", "> a", ">", "```", "[a]: /u", "<div>", "<!-- x", "a|b", "-|-", " ", "<del>", "<pre>"]
PREFB = ["", "> ", "- ", "1. "]
LEAFB = ["a", "# a", "---", "===", "- a", "> a", "```", "[a]: /u", "<div>", "<!-- x", "a|b", "-|-", "    a", "", "[a]: /other 'T'", "<del>", "<pre>"]
LEAFB2 = ["a", "---", "===", "- a", "-|-", "    a", "", "<div>"]
LISTLINE = re.compile(r"^ {0,3}(?:[-+*]|\d{1,9}[.)])(?:[ \t]|$)")

CFGS = [C.cfg("commonmark", {"inline_definitions": True, "store_labels": True}, enable=["table"]), C.cfg("js-default"),
        C.cfg("commonmark", disable=["code"]), C.cfg("js-default", disable=["blockquote"]),
        C.cfg("zero", enable=["list", "blockquote", "table"])]


def lines_of(pref, leaf):
    return sorted({p + l for p in pref for l in leaf})


def bdocs(tier):
    L1 = lines_of(PREFB, LEAFB)
    L2 = L1 if tier == "thorough" else lines_of(["", "> ", "- "], LEAFB2)
    out = []
    first2 = None if tier == "thorough" else {"a", "- a", "> a", "a|b", "```", "[a]: /u", "> - a", "1. a"}
    for a in L1:
        if a == "" or a[0] == " ":
            continue
        out.append(a + "\n")
        if first2 is not None and a not in first2:
            continue
        for b in L2:
            out.append(a + "\n" + b + "\n")
    # three-line B: a two-line block (table, setext heading, fence, list+continuation) directly followed by a
    # line that can or cannot interrupt / extend it
    heads = ["a|b\n-|-", "a\n===", "```\nx", "- a\n  b", "> a\nb", "1. a\n2. b", "a\nb"]
    tails = ["2. x", "7) x", "-", "- x", "c", "    c", "> c", "|c|d|", "# c", "***", "[c]: /u", "<div>", "```"]
    for h in heads:
        for t in tails:
            out.append(h + "\n" + t + "\n")
            if tier == "thorough":
                for pre in ("> ", "- "):
                    out.append("\n".join(pre + x for x in (h + "\n" + t).split("\n")) + "\n")
    return out


def sig(tokens, shift=0):
    out = []
    for t in tokens:
        d = t.as_dict(children=False)
        d.pop("children", None)
        if d["map"] is not None and shift:
            d["map"] = [d["map"][0] + shift, d["map"][1] + shift]
        out.append(d)
    return out


def shifted(sb, n):
    out = []
    for d in sb:
        if d["map"] is not None:
            d = dict(d)
            d["map"] = [d["map"][0] + n, d["map"][1] + n]
        out.append(d)
    return out


_bcache = {}


def b_table(md, ckey, tier):
    k = (ckey, tier)
    if k not in _bcache:
        out = []
        for B in bdocs(tier):
            try:
                tb = md.parse(B)
            except Exception:
                continue
            out.append((B, sig(tb), tb[0].type if tb else None, bool(LISTLINE.match(B.split("\n")[0]))))
        _bcache[k] = out
    return _bcache[k]


CONTAINER_OPEN = {"bullet_list_open", "ordered_list_open", "list_item_open", "blockquote_open"}


def trim_container_ends(sa, n):
    """parse(A + blank line): containers on the trailing spine may legitimately extend over the blank line;
    everything else (tokens, order, levels, hidden/tight flags, maps of leaf blocks) must equal parse(A)"""
    out = []
    for d in sa:
        if d["type"] in CONTAINER_OPEN and d["map"] is not None and d["map"][1] == n + 1:
            d = dict(d)
            d["map"] = [d["map"][0], n]
        out.append(d)
    return out


_cfg_by_md = {}


def _cfg_of(md):
    return _cfg_by_md.get(id(md))


def closed(md, A, acc):
    """returns (sig of parse(A+NL), last level-0 type) when A is closed, else None"""
    n = A.count("\n")
    ta = acc.call(md.parse, A + "\n")
    probe = acc.call(md.parse, A + "\nzz\n")
    zzt = acc.call(md.parse, "zz\n")
    if ta is CRASH or probe is CRASH or zzt is CRASH:
        return None
    sa = sig(ta)
    if sig(probe) != sa + sig(zzt, n + 1):
        # not closed according to the probe; that must be explained by A's own structure (its last leaf block is
        # a fence or an HTML block, which may legitimately run on) - otherwise something after A was lost or merged
        leaf = None
        for t in reversed(ta):
            if t.nesting != -1:
                leaf = t.type
                break
        if leaf not in ("fence", "html_block", None):
            acc.violation("closed", f"probe paragraph lost or merged after {leaf}", {"cfg": _cfg_of(md), "A": A, "B": "zz\n"},
                          "a paragraph after a blank line does not start a new top-level block although A does not "
                          "end in an open fence or HTML block")
        return None
    last = [t for t in ta if t.level == 0]
    alone = acc.call(md.parse, A)
    if alone is not CRASH:
        # the property excludes A ending in an open fence / HTML block: such a leaf at the end of a container
        # legitimately swallows the blank line, so the A-alone law is not applied then
        for t in reversed(alone):
            if t.nesting == -1:
                continue
            if t.type in ("fence", "html_block"):
                alone = CRASH
            break
    return sa, (last[-1].type if last else None), (None if alone is CRASH else sig(alone))


def pair(md, A, sa, lastA, B, sb, firstB, b_listline, acc, alone=None):
    if lastA and lastA.endswith("list_close") and b_listline:
        return "excluded"
    if lastA == "code_block" and firstB == "code_block":
        return "excluded"
    n = A.count("\n")
    tt = acc.call(md.parse, A + "\n" + B)
    if tt is CRASH:
        return "crash"
    st = sig(tt)
    if st != sa + shifted(sb, n + 1):
        return "differs"
    if alone is not None and trim_container_ends(st[:len(sa)], n) != alone:
        return "differs-alone"
    return None


# three-line A documents: quotes / lists containing a nested container, ended by a non-paragraph block or a lazy line
K3Q = ["> > a", "> # h", "> ***", "> ```", "after", "> a", "- a", "  b", "- > a", "  > b", "> - a"]


def bounds(tier):
    th = tier == "thorough"
    return {"A_prefixes": PREF, "A_leaves": LEAF, "A_K": 2, "A_K3_reduced": th, "B_docs": len(bdocs(tier)),
            "configs_full": CFGS[:2] if not th else CFGS, "configs_K1": CFGS}


def shards(tier):
    th = tier == "thorough"
    sh = []
    L = lines_of(PREF, LEAF)
    for f in L:
        sh.append(("k2", f, 0, tier))
        if th:
            for ci in range(1, len(CFGS)):
                sh.append(("k2", f, ci, tier))
    for ci in range(0 if th else 1, len(CFGS)):
        sh.append(("k1", ci, tier))
    for f in K3Q:
        sh.append(("k3q", f, tier))
    if th:
        L3 = lines_of(["", "> ", "- ", "  "], ["", "a", "---", "- a", "> a", "```", "[a]: /u", "<div>", "a|b", "-|-"])
        for f in L3:
            for g in L3:
                sh.append(("k3", f, g, 0))
    return sh


def _run_A(md, c, tier, A, acc, sub):
    _cfg_by_md[id(md)] = c
    r = closed(md, A, acc)
    if r is None:
        acc.count("A_not_closed")
        return
    sa, lastA, alone = r
    acc.count("A_closed")
    acc.sig(("A", tuple(d["type"] for d in sa[:8])))
    for B, sb, firstB, bl in b_table(md, C.key(c), tier):
        acc.case()
        v = pair(md, A, sa, lastA, B, sb, firstB, bl, acc, alone)
        if v == "excluded":
            acc.count("pairs_excluded")
            continue
        if v == "crash":
            continue
        acc.sig((lastA, firstB, v))
        if v == "differs":
            acc.violation(sub, f"{lastA} + {firstB}", {"cfg": c, "A": A, "B": B, "tier": tier},
                          f"blocks of A+NL+B differ from blocks(A+NL) ++ shift(blocks(B))")
        elif v == "differs-alone":
            acc.violation(sub, f"A part differs from A alone: {lastA}", {"cfg": c, "A": A, "B": B, "tier": tier},
                          "the blocks of A inside A+NL+B differ from the blocks of A parsed alone (beyond container end lines)")


def run_shard(sh, acc):
    kind = sh[0]
    if kind == "k2":
        _, f, ci, tier = sh
        c = CFGS[ci]
        md = C.build(c)
        _run_A(md, c, tier, f + "\n", acc, kind)
        for g in lines_of(PREF, LEAF):
            _run_A(md, c, tier, f + "\n" + g + "\n", acc, kind)
        acc.sample(kind, {"cfg": c, "A": f + "\n" + "a\n", "B": bdocs(tier)[3]}, 1)
    elif kind == "k3q":
        _, f, tier = sh
        c = CFGS[0]
        md = C.build(c)
        for g in K3Q:
            for h in K3Q:
                _run_A(md, c, "quick", f + "\n" + g + "\n" + h + "\n", acc, kind)
        acc.sample(kind, {"cfg": c, "A": "> > a\n> # h\nafter\n", "B": "a\n"}, 1)
    elif kind == "k1":
        c = CFGS[sh[1]]
        md = C.build(c)
        for f in lines_of(PREF, LEAF):
            _run_A(md, c, sh[2], f + "\n", acc, kind)
        acc.sample(kind, {"cfg": c, "A": "> a\n", "B": "- a\n"}, 1)
    elif kind == "k3":
        _, f, g, ci = sh
        c = CFGS[ci]
        md = C.build(c)
        L3 = lines_of(["", "> ", "- ", "  "], ["", "a", "---", "- a", "> a", "```", "[a]: /u", "<div>", "a|b", "-|-"])
        for h in L3:
            _run_A(md, c, "quick", f + "\n" + g + "\n" + h + "\n", acc, kind)


def check_case(case, acc):
    c = case["cfg"]
    md = C.build(c, fresh=True)
    _cfg_by_md[id(md)] = c
    A, B = case["A"], case["B"]
    r = closed(md, A, acc)
    acc.case()
    if r is None:
        return
    sa, lastA, alone = r
    tb = acc.call(md.parse, B)
    if tb is CRASH:
        return
    v = pair(md, A, sa, lastA, B, sig(tb), tb[0].type if tb else None, bool(LISTLINE.match(B.split("\n")[0])), acc, alone)
    if v == "differs":
        acc.violation(case["sub"], f"{lastA} + {tb[0].type if tb else None}", {k: case[k] for k in ("cfg", "A", "B")},
                      "blocks of A+NL+B differ from blocks(A+NL) ++ shift(blocks(B))")
    elif v == "differs-alone":
        acc.violation(case["sub"], f"A part differs from A alone: {lastA}", {k: case[k] for k in ("cfg", "A", "B")},
                      "the blocks of A inside A+NL+B differ from the blocks of A parsed alone (beyond container end lines)")
