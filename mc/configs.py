"""Configuration space (DESIGN.md 2.3): JSON-able configuration descriptors, the d-neighbourhoods of the
presets, the stub linkifier, and a per-process instance cache."""
from __future__ import annotations

import itertools
import json
import re

BLOCK_SW = ["table", "code", "fence", "blockquote", "hr", "list", "reference", "html_block", "heading", "lheading"]
INLINE_SW = ["newline", "escape", "backticks", "strikethrough", "emphasis", "link", "image", "autolink",
             "html_inline", "entity", "linkify"]
CORE_SW = ["replacements", "smartquotes"]
RULE_SW = BLOCK_SW + INLINE_SW + CORE_SW
BOOL_OPT = ["html", "typographer", "breaks", "xhtmlOut", "inline_definitions", "store_labels"]
VALUED = {
    "langPrefix": ["", "<&\" x"],
    "quotes": ["abcd", ["<<", ">>", "<", ""]],
    "maxNesting": [1, 2, 3, 20, 100],
}

PRESET_RULES_ON = {
    "zero": set(),
    "commonmark": {"code", "fence", "blockquote", "hr", "list", "reference", "html_block", "heading", "lheading",
                   "newline", "escape", "backticks", "emphasis", "link", "image", "autolink", "html_inline",
                   "entity"},
    "js-default": set(RULE_SW),
}
PRESET_OPT = {
    "zero": {"html": False, "xhtmlOut": False, "maxNesting": 20},
    "commonmark": {"html": True, "xhtmlOut": True, "maxNesting": 20},
    "js-default": {"html": False, "xhtmlOut": False, "maxNesting": 100},
}


def cfg(preset="commonmark", opts=None, enable=(), disable=(), linkify=None, post=None):
    d = {"preset": preset}
    if post:
        d["post"] = [list(p) for p in post]
    if opts:
        d["opts"] = dict(opts)
    if enable:
        d["enable"] = list(enable)
    if disable:
        d["disable"] = list(disable)
    if linkify:
        d["linkify"] = linkify
    return d


def key(c):
    return json.dumps(c, sort_keys=True)


class _Match:
    __slots__ = ("url", "text", "index", "last_index", "schema", "raw")

    def __init__(self, url, text, index, last_index, schema):
        self.url, self.text, self.index, self.last_index, self.schema = url, text, index, last_index, schema
        self.raw = text


class StubLinkify:
    """Minimal linkifier honouring the linkify-it match contract (pretest/test/match/match_at_start).
    Recognises scheme://..., www.... and x@y.z runs of URL characters.  Used only as an additional
    configuration; the real optional dependency is not installed in this sandbox."""

    _RX = re.compile(r"(?:(?P<s>[A-Za-z][A-Za-z0-9+.\-]*:)//[^\s<>\"]+|(?P<w>www\.[^\s<>\"]+)|(?P<m>[A-Za-z0-9._]+@[A-Za-z0-9]+\.[A-Za-z0-9.]+))")

    def pretest(self, text):
        return (":" in text) or ("www." in text) or ("@" in text)

    def test(self, text):
        return self._RX.search(text) is not None

    def _mk(self, m):
        if m.group("s"):
            return _Match(m.group(0), m.group(0), m.start(), m.end(), m.group("s"))
        if m.group("w"):
            return _Match("http://" + m.group(0), m.group(0), m.start(), m.end(), "")
        return _Match("mailto:" + m.group(0), m.group(0), m.start(), m.end(), "mailto:")

    def match(self, text):
        out = [self._mk(m) for m in self._RX.finditer(text)]
        return out or None

    def match_at_start(self, text):
        m = self._RX.match(text)
        if not m or not m.group("s"):
            return None
        return self._mk(m)


_cache = {}


def build(c, fresh=False):
    from markdown_it import MarkdownIt

    k = key(c)
    if not fresh and k in _cache:
        return _cache[k]
    for op in c.get("pre") or ():
        if op[0] == "construct":  # an unrelated instance built (and dropped) before the one under test
            MarkdownIt(op[1], op[2])
    md = MarkdownIt(c["preset"], c.get("opts") or None)
    if c.get("enable"):
        md.enable(c["enable"])
    if c.get("disable"):
        md.disable(c["disable"])
    if c.get("linkify") == "stub":
        md.linkify = StubLinkify()
    for op in c.get("post") or ():
        if op[0] == "setitem":
            md.options[op[1]] = op[2]
        elif op[0] == "setattr":
            setattr(md.options, op[1], op[2])
        elif op[0] == "update":
            md.options.update(op[1])
        elif op[0] == "core_disable":
            md.core.ruler.disable(op[1])
        elif op[0] == "ruler2_disable":
            md.inline.ruler2.disable(op[1])
        elif op[0] == "render_first":
            md.render(op[1])
        else:
            raise KeyError(op[0])
    if not fresh:
        _cache[k] = md
    return md


def _flip(preset, sw):
    """descriptor fragment for flipping one switch away from the preset"""
    if sw in RULE_SW:
        if sw in PRESET_RULES_ON[preset]:
            return ("disable", sw)
        return ("enable", sw)
    if sw in BOOL_OPT:
        base = PRESET_OPT[preset].get(sw, False)
        return ("opt", sw, not base)
    raise KeyError(sw)


def _valued(preset):
    out = []
    for k, vals in VALUED.items():
        for v in vals:
            if PRESET_OPT[preset].get(k) == v:
                continue
            out.append(("opt", k, v))
    return out


def neighbourhood(d, presets=("commonmark", "js-default", "zero"), switches=None, with_valued=True, base_opts=None):
    """every configuration within d switch deviations of each preset (a valued option counts as one)."""
    out = []
    seen = set()
    for p in presets:
        devs = [_flip(p, s) for s in (switches if switches is not None else RULE_SW + BOOL_OPT)]
        if with_valued:
            devs += _valued(p)
        for k in range(0, d + 1):
            for combo in itertools.combinations(devs, k):
                names = [x[1] for x in combo]
                if len(set(names)) < len(names):
                    continue
                en = [x[1] for x in combo if x[0] == "enable"]
                di = [x[1] for x in combo if x[0] == "disable"]
                opts = dict(base_opts or {})
                opts.update({x[1]: x[2] for x in combo if x[0] == "opt"})
                lk = None
                # the linkify rules need the option and a linkifier to do anything
                if "linkify" in en or (p == "js-default" and "linkify" not in di and opts.get("linkify")):
                    opts["linkify"] = True
                    lk = "stub"
                c = cfg(p, opts, en, di, lk)
                kk = key(c)
                if kk not in seen:
                    seen.add(kk)
                    out.append(c)
    return out


def rules_on(c):
    on = set(PRESET_RULES_ON[c["preset"]])
    on |= set(c.get("enable", ()))
    on -= set(c.get("disable", ()))
    return on


def opt(c, name):
    o = c.get("opts") or {}
    if name in o:
        return o[name]
    return PRESET_OPT[c["preset"]].get(name, {"langPrefix": "language-", "quotes": "“”‘’"}.get(name, False))
