"""CLI: python -m mc.run <ID> [--tier quick|thorough] | replay <path> | selftest"""
from __future__ import annotations

import argparse
import importlib
import os
import sys

from . import core


def main(argv=None):
    argv = list(sys.argv[1:] if argv is None else argv)
    if argv and argv[0] == "replay":
        sys.exit(core.replay_file(argv[1]))
    if argv and argv[0] == "selftest":
        from . import selftest

        sys.exit(selftest.main())
    ap = argparse.ArgumentParser()
    ap.add_argument("id")
    ap.add_argument("--tier", default=os.environ.get("VERIF_TIER", "quick"), choices=["quick", "thorough"])
    ap.add_argument("--replay")
    a = ap.parse_args(argv)
    if a.replay:
        sys.exit(core.replay_file(a.replay))
    core.bind()
    mod = importlib.import_module("mc.props." + a.id.lower())
    sys.exit(core.run_check(mod, a.tier))


if __name__ == "__main__":
    main()
