"""C01 - totality: parse/render/parseInline/renderInline return normally for every enumerated input x configuration."""
from __future__ import annotations

import io
import itertools
import os
import signal
import sys
import tempfile
from collections import OrderedDict

from .. import configs as C
from .. import inputs as I
from .. import spaces as S
from ..core import HANG_S, HangTimeout

ID = "C01"
LEVEL = "exploration"
RULE = ("bounded-exhaustive product: contextual/free line-shape documents, inline atom strings, nesting sweeps, "
        "corpus prefixes (thorough: every 1-atom deviation), x presets and every configuration within d switch "
        "deviations of a preset; argument-type matrix; CLI on every byte string over a 20-byte alphabet. "
        "A case is non-trivial when the call returned tokens/HTML; distinct = distinct (config, token-type "
        "sequence or exception class) signatures.")
ASSUMPTIONS = ["linkify paths are driven with a stub linkifier (linkify-it-py is not installed)",
               "hang verdict = call-event horizon 2e5*(len+1) exceeded after a 20 s wall-clock watchdog fired"]

BYTES = [0x00, 0x0A, 0x0D, 0x09, 0x20, 0x23, 0x2D, 0x3E, 0x5B, 0x60, 0x7C, 0x80, 0xBF, 0xC3, 0xE2, 0x82, 0xED, 0xA0,
         0xF0, 0xFF]


# Unicode class sweep: every code point the implementation may classify (digits, numerics, blanks, controls,
# format characters, fullwidth ASCII look-alikes, boundary scalars) in every syntactic trigger position
UNI_TEMPLATES = ["{c}. x", "{c}) x", "1{c}. x", "{c}1. x", "a\n{c}. x", "#{c}x", "# x {c}#", "{c}{c}{c}", "- {c}", "-{c}x",
                 ">{c}x", "[a]:{c}/u", "[a]: /u{c}'t'", "[{c}]: /u\n\n[{c}]", "```{c}", "```x{c}y\nz", "<{c}", "<a{c}b>", "<a {c}=1>",
                 "&#{c};", "&{c};", "&#x{c};", "[x]({c})", "[x](u{c}'t')", "[x](<{c}>)", "*{c}a*", "a{c}*b*", "*a{c}*",
                 "_{c}a_b", "|{c}|\n|-|", "|a|\n|{c}-|", "{c}|a|\n|-|", "`{c}`", "` {c} `", "\\{c}", "a{c}{c}\nb", "a \\{c}\nb",
                 "<http://{c}>", "<x@{c}.y>", "http://a.b/{c}", "www.{c}.b", "\"{c}\"", "'{c}'", "{c}--{c}", "({c})", "~~{c}~~",
                 "![{c}]({c})", "    {c}", "\t{c}", "{c}\n===", "{c}\n---", "***{c}", "- a\n{c}- b", "1. a\n{c}2. b"]


def uni_chars():
    import unicodedata

    out = []
    for cp in range(0x80, 0x110000):
        if 0xD800 <= cp <= 0xDFFF:
            continue
        ch = chr(cp)
        cat = unicodedata.category(ch)
        if (ch.isdigit() or ch.isdecimal() or ch.isnumeric() or ch.isspace() or cat in ("Zs", "Zl", "Zp", "Cc", "Cf")
                or 0xFF01 <= cp <= 0xFF5E):
            out.append(cp)
    out += [0x7F, 0x300, 0x20DD, 0xD7FF, 0xE000, 0xFDD0, 0xFFFC, 0xFFFD, 0xFFFE, 0xFFFF, 0x1FFFE, 0x10FFFF, 0x130, 0x131,
            0x1E9E, 0xDF, 0x3A3, 0x3C2]
    out += list(range(0, 0x20))
    return sorted(set(out))


# numeric character references: every value, hex and decimal, through the CLI (its output is printed, so whatever a
# reference decodes to has to be encodable)
ENT_MAX = 0x110002
ENT_FORMS = ["&#x{:X};", "&#{:d};"]
ENT_WRAP = ["{} ", "[a](u \"{}\") ", "``` {}\n```\n\n"]
BOMS = [b"\xef\xbb\xbf", b"\xff\xfe", b"\xfe\xff", b"\xff\xfe\x00\x00", b"\x00\x00\xfe\xff", b"+/v8", b"\xf7\x64\x4c"]


def bounds(tier):
    d = I.describe(tier)
    d["cli_byte_order_marks"] = [b.hex() for b in BOMS]
    d["unicode_sweep"] = {"templates": len(UNI_TEMPLATES), "code_points": len(uni_chars())}
    d["cli_numeric_references"] = {"values": f"0..{ENT_MAX - 1:#x}, all", "forms": ENT_FORMS, "wrapped_in": ENT_WRAP,
                                   "note": "title/fence-info wrappers on the 0x4000-blocks at 0x0000 and 0xC000 of every plane"}
    d["cli_bytes"] = {"alphabet": [hex(b) for b in BYTES], "max_len": 3 if tier == "thorough" else 2}
    return d


def shards(tier):
    sh = I.shards(tier)
    sh.append(("types",))
    sh.append(("nolinkifier",))
    ucs = uni_chars()
    for i in range(0, len(ucs), 100):
        sh.append(("unicode", i, min(len(ucs), i + 100)))
    for b in BYTES:
        sh.append(("cli", b, 3 if tier == "thorough" else 2))
    for bi in range(len(BOMS)):
        sh.append(("clibom", bi, 3 if tier == "thorough" else 2))
    n = len(S.corpus_seeds())
    for i in range(0, n, 100):
        sh.append(("clicorpus", i, min(n, i + 100)))
    for lo in range(0, ENT_MAX, 0x4000):
        sh.append(("client", lo, min(ENT_MAX, lo + 0x4000)))
    return sh


def _horizon_run(fn, src_len):
    """deterministic hang verdict: count library call events up to a horizon"""
    import markdown_it

    pkg = os.path.dirname(markdown_it.__file__)
    limit = 200000 * (src_len + 1)
    n = [0]

    class Over(BaseException):
        pass

    def prof(frame, ev, arg):
        if ev == "call" and frame.f_code.co_filename.startswith(pkg):
            n[0] += 1
            if n[0] > limit:
                raise Over()

    sys.setprofile(prof)
    try:
        fn()
        return None
    except Over:
        return f"hang: more than {limit} library calls"
    except BaseException as e:  # noqa
        return None
    finally:
        sys.setprofile(None)


def _one(md, mode, src, acc, c):
    """returns None or (cls, msg)"""
    signal.setitimer(signal.ITIMER_REAL, HANG_S)
    try:
        if mode == "doc":
            toks = md.parse(src)
            md.render(src)
        else:
            toks = md.parseInline(src)
            md.renderInline(src)
        signal.setitimer(signal.ITIMER_REAL, 0)
        acc.sig((c.get("preset"), tuple(t.type for t in toks[:12])))
        return None
    except HangTimeout:
        signal.setitimer(signal.ITIMER_REAL, 0)
        f = (lambda: md.render(src)) if mode == "doc" else (lambda: md.renderInline(src))
        v = _horizon_run(f, len(src))
        if v:
            return ("hang", v)
        return None
    except Exception as e:
        signal.setitimer(signal.ITIMER_REAL, 0)
        import traceback

        tb = traceback.extract_tb(e.__traceback__)
        where = ""
        for fr in reversed(tb):
            if "markdown_it" in fr.filename or "mdurl" in fr.filename:
                where = f"{os.path.basename(fr.filename)}:{fr.name}"
                break
        return (f"{type(e).__name__} in {where}", f"{type(e).__name__}: {e}")
    finally:
        signal.setitimer(signal.ITIMER_REAL, 0)


def check_case(case, acc):
    sub = case["sub"]
    if sub == "types":
        return _types(acc)
    if sub == "nolinkifier":
        return _nolinkifier(acc)
    if sub == "cli":
        return _cli_one(bytes.fromhex(case["hex"]), acc)
    md = C.build(case["cfg"], fresh=True)
    acc.case()
    r = _one(md, case["mode"], case["src"], acc, case["cfg"])
    if r:
        acc.violation(sub, r[0], {"cfg": case["cfg"], "mode": case["mode"], "src": case["src"]}, r[1])


def run_shard(sh, acc):
    kind = sh[0]
    if kind == "types":
        return _types(acc)
    if kind == "nolinkifier":
        return _nolinkifier(acc)
    if kind == "cli":
        _, b, L = sh
        for k in range(0, L):
            for combo in itertools.product(BYTES, repeat=k):
                _cli_one(bytes((b,) + combo), acc)
        return
    if kind == "clibom":
        _, bi, L = sh
        for k in range(0, L + 1):
            for combo in itertools.product(BYTES, repeat=k):
                _cli_one(BOMS[bi] + bytes(combo), acc)
        return
    if kind == "client":
        _, lo, hi = sh
        for form in ENT_FORMS:
            for wrap in ENT_WRAP:
                if wrap != ENT_WRAP[0] and lo % 0x10000 not in (0, 0xC000):
                    continue  # (title and fence info: the blocks around the plane boundaries and the surrogates only)
                doc = "".join(wrap.format(form.format(v)) for v in range(lo, hi))
                if not _cli_one(doc.encode("utf8"), acc, report=False):
                    # minimal witness: the single references of this block
                    for v in range(lo, hi):
                        _cli_one(wrap.format(form.format(v)).encode("utf8"), acc, sig=False)
        return
    if kind == "clicorpus":
        _, lo, hi = sh
        for seed in S.corpus_seeds()[lo:hi]:
            raw = seed.encode("utf8")
            # every byte-prefix that ends inside a multi-byte sequence, plus the whole
            for i in range(len(raw) + 1):
                if i == len(raw) or (raw[i] & 0xC0) == 0x80:
                    _cli_one(raw[:i], acc)
        return
    if kind == "unicode":
        _, lo, hi = sh
        for c in (I.CM_T, I.JS_TL):
            md = C.build(c)
            for cp in uni_chars()[lo:hi]:
                ch = chr(cp)
                for t in UNI_TEMPLATES:
                    src = t.replace("{c}", ch)
                    acc.case()
                    r = _one(md, "doc", src, acc, c)
                    if r:
                        acc.violation(kind, r[0], {"cfg": c, "mode": "doc", "src": src}, r[1])
        acc.sample(kind, {"cfg": I.CM_T, "mode": "doc", "src": "\u00b2. x"}, 1)
        return
    last = None
    md = None
    first = True
    for c, mode, src in I.iter_shard(sh):
        if c is not last:
            md = C.build(c)
            last = c
        acc.case()
        if first:
            acc.sample(kind, {"cfg": c, "mode": mode, "src": src})
            first = False
        r = _one(md, mode, src, acc, c)
        if r:
            acc.violation(kind, r[0], {"cfg": c, "mode": mode, "src": src}, r[1])
            if r[0] == "hang":
                acc.count("hang_verdicts")
                if acc.counters.get("hang_verdicts", 0) >= 3:
                    return  # three hang verdicts are enough for this shard; each costs the watchdog time


class _Str(str):
    pass


class _Dict(dict):
    pass


def _types(acc):
    from markdown_it import MarkdownIt

    md = MarkdownIt()
    srcs = [("None", None, False), ("bytes", b"", False), ("int", 1, False), ("list", ["a"], False),
            ("strsub", _Str("*a*"), True), ("str", "*a*", True)]
    envs = [("omitted", "OMIT", True), ("None", None, True), ("dict", {}, True), ("OrderedDict", OrderedDict(), True),
            ("dictsub", _Dict(), True), ("list", [], False), ("str", "x", False), ("int", 1, False)]
    for meth in ("parse", "render", "parseInline", "renderInline"):
        for sn, s, sok in srcs:
            for en, e, eok in envs:
                acc.case()
                f = getattr(md, meth)
                try:
                    if isinstance(e, str) and e == "OMIT":
                        f(s)
                    else:
                        f(s, type(e)() if e is not None and not isinstance(e, (str, int)) else e)
                    out = "ok"
                except TypeError:
                    out = "TypeError"
                except Exception as ex:
                    out = type(ex).__name__
                acc.sig(("types", meth, sn, en, out))
                exp = "ok" if (sok and eok) else "TypeError"
                if out != exp:
                    acc.violation("types", f"{meth}({sn},{en}) -> {out}", {"meth": meth, "src": sn, "env": en},
                                  f"expected {exp}, got {out}")
    acc.sample("types", {"meth": "parse", "src": "bytes", "env": "list"})


def _nolinkifier(acc):
    """linkify switched on without a linkifier: ModuleNotFoundError, and only that"""
    from markdown_it import MarkdownIt

    for preset in ("commonmark", "js-default", "zero"):
        for core_on in (True, False):
            for src in I.core_docs()[:400] + ["http://a.b", "a://b", "x http://y"]:
                md = MarkdownIt(preset, {"linkify": True})
                md.linkify = None
                if preset != "js-default":
                    md.enable("linkify")
                if not core_on:
                    md.core.ruler.disable("linkify")
                acc.case()
                try:
                    md.render(src)
                    out = "ok"
                except ModuleNotFoundError:
                    out = "ModuleNotFoundError"
                except Exception as e:
                    out = type(e).__name__
                acc.sig(("nolinkifier", preset, core_on, out))
                allowed = {"ModuleNotFoundError"} if core_on else {"ok", "ModuleNotFoundError"}
                if out not in allowed:
                    acc.violation("nolinkifier", f"{out} core_on={core_on}", {"preset": preset, "src": src},
                                  f"linkify on without linkifier: got {out}")
    acc.sample("nolinkifier", {"preset": "commonmark", "src": "http://a.b"})


def _cli_one(raw, acc, report=True, sig=True):
    """returns True when the CLI returned normally"""
    from markdown_it.cli import parse as cli

    acc.case()
    ok = False
    fd, path = tempfile.mkstemp(prefix="c01cli", dir="/dev/shm" if os.path.isdir("/dev/shm") else None)
    try:
        os.write(fd, raw)
        os.close(fd)
        old = sys.stdout
        # an encoding stream, as the real stdout is: text that cannot be encoded fails in print(), inside the CLI
        raw_out = io.BytesIO()
        sys.stdout = io.TextIOWrapper(raw_out, encoding="utf-8", errors="strict", write_through=True)
        try:
            signal.setitimer(signal.ITIMER_REAL, HANG_S)
            rc = cli.main([path])
            sys.stdout.flush()
            signal.setitimer(signal.ITIMER_REAL, 0)
            if sig:
                acc.sig(("cli", len(raw_out.getvalue()) > 0, rc))
            ok = True
        except HangTimeout:
            sys.stdout = old
            if report:
                acc.violation("cli", "hang", {"hex": raw.hex()}, "CLI did not return within the watchdog")
        except BaseException as e:
            signal.setitimer(signal.ITIMER_REAL, 0)
            sys.stdout = old
            if report:
                acc.violation("cli", type(e).__name__, {"hex": raw.hex()}, f"{type(e).__name__}: {e}")
        finally:
            signal.setitimer(signal.ITIMER_REAL, 0)
            sys.stdout = old
    finally:
        os.unlink(path)
    if report:
        acc.sample("cli", {"hex": raw.hex()}, 1)
    return ok
