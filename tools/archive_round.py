#!/usr/bin/env python3
"""tools/archive_round.py <dir> <letter> <comma-separated ids missed at first>
archive one round of seeds (<dir>/<ID>/A with eval.json) as /verif/seeded/<ID>-<letter> and append them to README.md
(the rows of the earlier rounds are left as they are).  Round 4: /tmp/seeds7 G; round 5: /tmp/seeds9 H."""
import glob, json, os, re, shutil, sys
SRC, LETTER = sys.argv[1], sys.argv[2]
MISSED = {x + "-" + LETTER for x in sys.argv[3].split(",") if x}
rows = []
for d in sorted(glob.glob(SRC + "/C*/A")):
    pid = d.split("/")[-2]
    name = pid + "-" + LETTER
    t = open(os.path.join(d, "eval.json")).read()
    e = json.loads(t[t.index("{"):])
    assert e.get("confirmed"), name
    out = f"/verif/seeded/{name}"
    os.makedirs(out, exist_ok=True)
    for f in ("patch.diff", "demo.py", "notes.md"):
        shutil.copy(os.path.join(d, f), out)
    notes = open(os.path.join(d, "notes.md")).read()
    caught = e.get("checks", {})
    meta = {"id": name, "breaks_property": pid,
            "origin": "written by a sub-agent that saw only the property text, the one-line titles of the six earlier changes to this property, and a scratch worktree of /repo",
            "needs_to_manifest": notes.strip()[:1200],
            "confirmed": {"suite_with_patch": e["suite_with_patch"], "demo_without_patch_rc": e["demo_without_patch_rc"],
                          "demo_with_patch_rc": e["demo_with_patch_rc"],
                          "how": "tools/seed_eval.py: scratch copy of /repo, pytest tests (875 passed / 32 linkify failures expected), demo.py with and without the patch"},
            "detected_by": {k: {"exit": v["rc"], "violation_classes": v["classes"][:3]} for k, v in caught.items() if v["rc"] == 1},
            "not_reported_by": [k for k, v in caught.items() if v["rc"] != 1],
            "missed_by_first_version_of_the_check": name in MISSED}
    json.dump(meta, open(os.path.join(out, "meta.json"), "w"), indent=1)
    rows.append((name, pid, [k for k, v in caught.items() if v["rc"] == 1], name in MISSED, (notes.strip().splitlines() or [""])[0][:110]))
p = "/verif/seeded/README.md"
s = open(p).read()
s = "\n".join(l for l in s.split("\n") if not re.match(r"\| C\d\d-" + LETTER + " ", l)).rstrip("\n") + "\n"
for r in rows:
    s += f"| {r[0]} | {r[1]} | {', '.join(r[2]) or 'NOT DETECTED'} | {'yes' if r[3] else 'no'} | {r[4].replace('|', '/')} |\n"
open(p, "w").write(s)
print(len(rows), "archived")
