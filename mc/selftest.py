"""MANIFEST.setup_cmd: nothing to build; verify the framework imports, binds to the repository working tree,
the manifest validates and one tiny enumeration runs end to end."""
from __future__ import annotations

import json
import os
import subprocess
import sys

from . import core


def main():
    core.bind()
    import markdown_it

    print("bound to", markdown_it.__file__)
    import importlib

    man = json.load(open(os.path.join(core.VERIF, "MANIFEST.json")))
    for chk in man["checks"]:
        importlib.import_module("mc.props." + chk["property_id"].lower())
    print("imported", len(man["checks"]), "property modules")
    vt = "/opt/veriftools/pyvenv/bin/python"
    if os.path.exists(vt) and os.path.exists("/root/.vp/MANIFEST.schema.json"):
        code = ("import json,jsonschema,sys;"
                "jsonschema.validate(json.load(open(sys.argv[1])),json.load(open(sys.argv[2])));print('manifest valid')")
        r = subprocess.run([vt, "-c", code, os.path.join(core.VERIF, "MANIFEST.json"), "/root/.vp/MANIFEST.schema.json"])
        if r.returncode:
            return 2
    return 0
