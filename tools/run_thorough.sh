#!/bin/sh
# run the thorough tier of the given checks one after another, logging wall time and verdict
for id in "$@"; do
  s=$(date +%s)
  VERIF_OUT=${VERIF_OUT:-/verif} ./check $id --tier thorough > thorough-$id.log 2>&1
  rc=$?
  e=$(date +%s)
  echo "$id rc=$rc wall=$((e-s))s $(tail -1 thorough-$id.log | cut -c1-200)"
done
