"""C02 - token streams are well nested, correctly levelled and tree-constructible."""
from __future__ import annotations

from .. import configs as C
from .. import inputs as I
from ..core import CRASH

ID = "C02"
LEVEL = "exploration"
RULE = ("same inputs x configurations product as C01 (maxNesting 1,2,3 cut-off paths and the stub linkifier "
        "included); every stream from parse/parseInline is run through a bracket-discipline stack machine, "
        "recursively into inline and image children, then SyntaxTreeNode must build. Non-trivial = stream with at "
        "least one nesting token; distinct = distinct (type,nesting,level) sequences.")
ASSUMPTIONS = ["linkify paths use the stub linkifier"]


def bounds(tier):
    return I.describe(tier)


def shards(tier):
    return I.shards(tier)


def check_stream(tokens, block, top_inline_mode=False):
    """top_inline_mode: the single container token returned by parseInline; the pinned suite
    (test_parseInline) fixes its block flag to False, so the flag of that one token is not constrained."""
    depth = 0
    stack = []
    prev = None
    for t in tokens:
        if t.nesting not in (-1, 0, 1):
            return f"nesting value {t.nesting} on {t.type}"
        if t.nesting == -1:
            if not stack:
                return f"closer {t.type} without opener (negative depth)"
            o = stack.pop()
            if not o.type.endswith("_open") or not t.type.endswith("_close") or o.type[:-5] != t.type[:-6]:
                return f"pair kind {o.type}/{t.type}"
            if o.tag != t.tag:
                return f"pair tag {o.type} {o.tag!r}/{t.tag!r}"
            if o.markup != t.markup:
                return f"pair markup {o.type} {o.markup!r}/{t.markup!r}"
            depth -= 1
        if t.level != depth:
            return f"level of {t.type} is {t.level}, depth is {depth}"
        if t.nesting == 1:
            if not t.type.endswith("_open"):
                return f"opener kind {t.type}"
            stack.append(t)
            depth += 1
        if t.nesting == 0 and (t.type.endswith("_open") or t.type.endswith("_close")):
            return f"{t.type} with nesting 0"
        if bool(t.block) != block and not (top_inline_mode and t.type == "inline"):
            return f"block flag of {t.type} is {t.block} at {'block' if block else 'inline'} level"
        if t.type == "text_special":
            return "text_special survives"
        if prev is not None and prev.type == "text" and t.type == "text":
            return "adjacent text tokens"
        if t.children is not None and t.type not in ("inline", "image"):
            return f"children on {t.type}"
        if t.type == "inline":
            if not block:
                return "inline token inside inline"
            if not isinstance(t.children, list):
                return "inline.children is not a list"
            r = check_stream(t.children, False)
            if r:
                return "in inline: " + r
        if t.type == "image" and t.children is not None:
            # an image with an empty description carries children=None (image.py: `tokens or None`)
            if not isinstance(t.children, list):
                return "image.children is neither None nor a list"
            r = check_stream(t.children, False)
            if r:
                return "in image: " + r
        prev = t
    if stack:
        return f"unclosed {stack[-1].type}"
    return None


def _one(md, mode, src, acc):
    from markdown_it.tree import SyntaxTreeNode

    toks = acc.call(md.parse if mode == "doc" else md.parseInline, src)
    if toks is CRASH:
        return None
    r = check_stream(toks, True, mode == "inline")
    if r is None:
        try:
            SyntaxTreeNode(toks)
        except Exception as e:
            r = f"SyntaxTreeNode raises {type(e).__name__}"
    if mode == "inline" and r is None:
        if len(toks) != 1 or toks[0].type != "inline":
            r = "parseInline did not return exactly one inline token"
    if any(t.nesting for t in toks) or any(c.nesting for t in toks for c in (t.children or ())):
        acc.sig(tuple((t.type, t.level) for t in toks[:10]) + tuple(
            (c.type, c.level) for t in toks[:6] for c in (t.children or ())[:8]))
    return r


def _cls(r):
    import re

    return re.sub(r"-?\d+", "N", r)[:70]


def check_case(case, acc):
    md = C.build(case["cfg"], fresh=True)
    acc.case()
    r = _one(md, case["mode"], case["src"], acc)
    if r:
        acc.violation(case["sub"], _cls(r), {"cfg": case["cfg"], "mode": case["mode"], "src": case["src"]}, r)


def run_shard(sh, acc):
    kind = sh[0]
    last = None
    md = None
    first = True
    for c, mode, src in I.iter_shard(sh):
        if c is not last:
            md = C.build(c)
            last = c
        acc.case()
        if first:
            acc.sample(kind, {"cfg": c, "mode": mode, "src": src})
            first = False
        r = _one(md, mode, src, acc)
        if r:
            acc.violation(kind, _cls(r), {"cfg": c, "mode": mode, "src": src}, r)
