#!/bin/sh
# re-evaluate every archived seed against the check of its own property (and extra checks given in meta) - slow
for d in /verif/seeded/C*-[A-H]; do
  name=$(basename $d); pid=${name%-*}
  extra=""
  case $name in C12-C) extra=",C11";; C12-G) extra=",C13";; esac
  timeout 2400 python3 tools/seed_eval.py $d --checks "$pid$extra" > /tmp/seedall/$name.json 2>/dev/null
  python3 - /tmp/seedall/$name.json $name <<'PY'
import json,sys
t=open(sys.argv[1]).read()
try:
    d=json.loads(t[t.index('{'):]); print(sys.argv[2],'confirmed',d.get('confirmed'),{k:v['rc'] for k,v in d.get('checks',{}).items()},d.get('error','')[:80])
except Exception as e: print(sys.argv[2],'EVAL ERROR',str(e)[:100])
PY
done
