"""C18 - inline text means the same in every block context; renderer-only options are inert."""
from __future__ import annotations

import itertools

from .. import configs as C
from .. import inputs as I
from .. import spaces as S
from ..core import CRASH

ID = "C18"
LEVEL = "exploration"
RULE = ("(1) every string of <=4 inline atoms (19 atoms incl. raw HTML, links, images, entities, escapes, autolink-like "
        "text; thorough: the 30-atom set with line breaks at L<=3 too) whose block parse is one paragraph holding the "
        "source: parseInline gives one inline token with the paragraph's children and renderInline the paragraph's "
        "HTML without <p>; (2) every trimmed one-line text among them in {paragraph, '# t', '- t', '> t', table "
        "cell} under the property's guards: same inline children; (3) documents x all 48 combinations of xhtmlOut x "
        "breaks x langPrefix(3) x highlight(none, <pre>-returning, plain, empty) under each preset: token streams "
        "identical, HTML equal to an independent reference renderer applied to the same tokens. Non-trivial = text "
        "with at least one non-text inline token; distinct = distinct (sub-check, children type sequence / HTML).")

ATOMS = ["a", " ", "*", "_", "`", "[", "]", "(u)", "!", "<b>", "\\", "&amp;", "&", "#", '"', "~~", "-", "<", "http://x"]
ATOMS_NL = ATOMS + ["\n", "  \n", "\\\n", "1. ", "> ", "|", ":", "'", "=", "+ "]
CTX_CFGS = [C.cfg("js-default", {"html": True}), C.cfg("commonmark", enable=["table", "strikethrough"])]


def kids(tok):
    return [c.as_dict() for c in tok.children or []]


def sub_ctx(md, t, acc):
    base = acc.call(md.parse, t)
    if base is CRASH:
        return None
    single = len(base) == 3 and base[0].type == "paragraph_open" and base[1].content == t
    if not single:
        return None
    ref = kids(base[1])
    if any(c["type"] != "text" for c in ref):
        acc.sig(("ctx", tuple(c["type"] for c in ref)))
    pi = acc.call(md.parseInline, t)
    if pi is not CRASH:
        if len(pi) != 1 or pi[0].type != "inline" or kids(pi[0]) != ref:
            return "parseInline children differ from the paragraph's children"
    ri = acc.call(md.renderInline, t)
    rr = acc.call(md.render, t)
    if ri is not CRASH and rr is not CRASH and "<p>" + ri + "</p>\n" != rr:
        return "renderInline differs from the paragraph's HTML without <p>"
    if "\n" in t or t != t.strip() or not t:
        return None
    ctxs = {}
    if not t.endswith("#"):
        ctxs["atx"] = "# " + t
    if t[0].isalnum():
        ctxs["li"] = "- " + t
        ctxs["bq"] = "> " + t
    if not any(c in t for c in "|\\`"):
        ctxs["td"] = "|" + t + "|\n|-|"
    for name, src in ctxs.items():
        toks = acc.call(md.parse, src)
        if toks is CRASH:
            continue
        inl = [x for x in toks if x.type == "inline"]
        acc.count("ctx_" + name)
        if len(inl) != 1 or inl[0].content != t:
            # the text is block syntax in this context after all (outside the law's premise)
            acc.count("ctx_premise_fails_" + name)
            continue
        if kids(inl[0]) != ref:
            return f"inline children in context {name} differ from the paragraph's"
    return None


# ---- reference renderer --------------------------------------------------------------------------------------
def esc(s):
    return s.replace("&", "&amp;").replace("<", "&lt;").replace(">", "&gt;").replace('"', "&quot;")


def _attrs(t, extra=None):
    a = dict(t.attrs or {})
    if extra:
        a.update(extra)
    return "".join(f' {esc(str(k))}="{esc(str(v))}"' for k, v in a.items())


def _alt(children):
    out = ""
    for c in children or []:
        if c.type == "text":
            out += c.content
        elif c.type == "image":
            out += _alt(c.children)
        elif c.type == "softbreak":
            out += "\n"
    return out


def ref_render(tokens, o):
    from markdown_it.common.utils import unescapeAll

    out = ""
    for i, t in enumerate(tokens):
        ty = t.type
        if ty == "inline":
            out += ref_render(t.children or [], o)
        elif ty == "text":
            out += esc(t.content)
        elif ty == "code_inline":
            out += "<code" + _attrs(t) + ">" + esc(t.content) + "</code>"
        elif ty == "code_block":
            out += "<pre" + _attrs(t) + "><code>" + esc(t.content) + "</code></pre>\n"
        elif ty == "fence":
            info = unescapeAll(t.info).strip() if t.info else ""
            lang, lattrs = "", ""
            if info:
                parts = info.split(maxsplit=1)
                lang = parts[0]
                lattrs = parts[1] if len(parts) == 2 else ""
            hl = o["highlight"]
            body = (hl(t.content, lang, lattrs) or esc(t.content)) if hl else esc(t.content)
            if body.startswith("<pre"):
                out += body + "\n"
            elif info:
                a = dict(t.attrs or {})
                cls = o["langPrefix"] + lang
                a["class"] = (a["class"] + " " + cls) if "class" in a else cls
                out += "<pre><code" + "".join(f' {esc(str(k))}="{esc(str(v))}"' for k, v in a.items()) + ">" + body + "</code></pre>\n"
            else:
                out += "<pre><code" + _attrs(t) + ">" + body + "</code></pre>\n"
        elif ty == "image":
            a = dict(t.attrs or {})
            a["alt"] = _alt(t.children)
            out += "<img" + "".join(f' {esc(str(k))}="{esc(str(v))}"' for k, v in a.items()) + (" /" if o["xhtmlOut"] else "") + ">"
        elif ty == "hardbreak":
            out += "<br />\n" if o["xhtmlOut"] else "<br>\n"
        elif ty == "softbreak":
            out += ("<br />\n" if o["xhtmlOut"] else "<br>\n") if o["breaks"] else "\n"
        elif ty in ("html_block", "html_inline"):
            out += t.content
        elif ty == "definition":
            out += ""
        else:
            if t.hidden:
                continue
            s = ""
            if t.block and t.nesting != -1 and i and tokens[i - 1].hidden:
                s += "\n"
            s += ("</" if t.nesting == -1 else "<") + t.tag + _attrs(t)
            if t.nesting == 0 and o["xhtmlOut"]:
                s += " /"
            lf = False
            if t.block:
                lf = True
                if t.nesting == 1 and i + 1 < len(tokens):
                    nx = tokens[i + 1]
                    if nx.type == "inline" or nx.hidden:
                        lf = False
                    elif nx.nesting == -1 and nx.tag == t.tag:
                        lf = False
            out += s + (">\n" if lf else ">")
    return out


def hl_pre(code, lang, attrs):
    return f"<pre>HL[{lang}|{attrs}]{esc(code)}</pre>"


def hl_plain(code, lang, attrs):
    return "HL:" + esc(code)


def hl_empty(code, lang, attrs):
    return ""


HLS = [None, hl_pre, hl_plain, hl_empty]
LANGP = ["language-", "", "<&\" x"]
COMBOS = list(itertools.product((False, True), (False, True), range(3), range(4)))
OPT_PRESETS = [C.cfg("commonmark"), C.cfg("js-default", {"typographer": True}), C.cfg("zero", enable=["fence", "newline", "image", "emphasis"]),
               # line ends that stay inside text tokens (newline rule off): no softbreak token, so no option applies
               C.cfg("commonmark", disable=["newline"]), C.cfg("zero", enable=["fence", "image", "entity", "heading"])]
# line ends and line-end look-alikes inside inline content: only a softbreak/hardbreak TOKEN is a break
NL_ATOMS = ["a", "\n", "  \n", "\\\n", "&#10;", "&#xA;", "&NewLine;", "&#13;", "\u2028", "\x0b", "<br>", "*", "# "]
FENCE_DOCS = ["![first\nsecond](u)\n", "[![a\nb](u)](v) c\nd\n", "```py\nx<y\n```\n", "``` py x=1 &amp; \\*\n&\n```\n", "~~~\n\n~~~\n", "```&#112;y\na\n", "   ```\tsh\n   b\n   ```\n",
              "a\nb  \nc\\\nd\n", "![a\nb](u 't')\n", "- a\nb\n\n---\n\n1. c\n", "> ```x\n> y\n", "<div>\n```z\nw\n```\n</div>\n",
              "```<pre\nq\n```\n"]
_opt_cache = {}


def opt_mds(pi):
    if pi not in _opt_cache:
        out = []
        for n, (xh, br, lp, hi) in enumerate(COMBOS):
            base = OPT_PRESETS[pi]
            o = {"xhtmlOut": xh, "breaks": br, "langPrefix": LANGP[lp], "highlight": HLS[hi]}
            if n % 3 == 2:
                # ... attribute assignment ...
                md = C.build(base, fresh=True)
                for k, v in o.items():
                    setattr(md.options, k, v)
            elif n % 3 == 0:
                # constructor route (options_update) ...
                from markdown_it import MarkdownIt

                md = MarkdownIt(base["preset"], {**(base.get("opts") or {}), **o})
                if base.get("enable"):
                    md.enable(base["enable"])
                if base.get("disable"):
                    md.disable(base["disable"])
            else:
                # ... and item assignment after construction
                md = C.build(base, fresh=True)
                for k, v in o.items():
                    md.options[k] = v
            out.append(md)
        _opt_cache[pi] = out
    return _opt_cache[pi]


def sub_opts(pi, src, acc):
    mds = opt_mds(pi)
    ref_tokens = None
    for ci, md in enumerate(mds):
        toks = acc.call(md.parse, src)
        if toks is CRASH:
            return None
        d = [t.as_dict() for t in toks]
        if ref_tokens is None:
            ref_tokens = d
        elif d != ref_tokens:
            return f"token stream differs under renderer-only options {COMBOS[ci]}", ci
        got = acc.call(md.renderer.render, toks, md.options, {})
        if got is CRASH:
            return None
        o = {"xhtmlOut": COMBOS[ci][0], "breaks": COMBOS[ci][1], "langPrefix": LANGP[COMBOS[ci][2]], "highlight": HLS[COMBOS[ci][3]]}
        exp = ref_render(toks, o)
        if ci == 0:
            acc.sig(("opts", got))
        if got != exp:
            return f"HTML differs from the reference renderer under options {COMBOS[ci]}", ci
    return None


# ---- options changed in place on an instance that has already rendered ----------------------------------------
LIVE_ROUTES = ["setitem", "setattr", "update"]


def _opts_of(ci):
    xh, br, lp, hi = COMBOS[ci]
    return {"xhtmlOut": xh, "breaks": br, "langPrefix": LANGP[lp], "highlight": HLS[hi]}


def live_case(pi, ca, cb, route, src, acc):
    """an instance configured like combination ca renders src, is switched in place to cb, renders again"""
    from markdown_it import MarkdownIt

    base = OPT_PRESETS[pi]
    md = MarkdownIt(base["preset"], {**(base.get("opts") or {}), **_opts_of(ca)})
    if base.get("enable"):
        md.enable(base["enable"])
    if base.get("disable"):
        md.disable(base["disable"])
    if acc.call(md.render, src) is CRASH:
        return None
    o = _opts_of(cb)
    if route == "update":
        md.options.update(o)
    else:
        for k, v in o.items():
            if route == "setitem":
                md.options[k] = v
            else:
                setattr(md.options, k, v)
    toks = acc.call(md.parse, src)
    if toks is CRASH:
        return None
    got = acc.call(md.renderer.render, toks, md.options, {})
    if got is CRASH:
        return None
    if got != ref_render(toks, o):
        return f"HTML differs from the reference renderer after options were changed in place ({route}) from {COMBOS[ca]} to {COMBOS[cb]}"
    return None


def live_pairs():
    """ordered pairs of option combinations that differ in exactly one option"""
    out = []
    for a in range(len(COMBOS)):
        for b in range(len(COMBOS)):
            if sum(1 for x, y in zip(COMBOS[a], COMBOS[b]) if x != y) == 1:
                out.append((a, b))
    return out


# ---- driver --------------------------------------------------------------------------------------------------
def opt_docs():
    out = list(S.docs(S.FREE_LINES, 2, both_endings=False)) + list(S.strings(S.ATOMS, 2)) + I.core_docs() + FENCE_DOCS
    out += list(S.strings(NL_ATOMS, 3))
    seen, res = set(), []
    for d in out:
        if d not in seen:
            seen.add(d)
            res.append(d)
    return res


def bounds(tier):
    th = tier == "thorough"
    return {"atoms": ATOMS, "L": 5 if th else 4, "atoms_with_breaks": ATOMS_NL if th else None, "ctx_configs": CTX_CFGS,
            "option_combinations": len(COMBOS), "option_presets": OPT_PRESETS, "option_docs": len(opt_docs()), "line_end_atoms": NL_ATOMS, "L_line_end": 3,
            "live_option_changes": {"docs": FENCE_DOCS, "pairs": "every ordered pair of option combinations that differ in one option", "routes": LIVE_ROUTES}}


def shards(tier):
    th = tier == "thorough"
    sh = []
    for ci in range(len(CTX_CFGS)):
        for f in ATOMS:
            # (prefix, number of further atoms)
            if th:
                sh.append(("ctx", ci, f, 0, "base"))
                for g in ATOMS:
                    sh.append(("ctx", ci, f + g, 3, "base"))
            else:
                sh.append(("ctx", ci, f, 3, "base"))
        for f in ATOMS_NL:
            sh.append(("ctx", ci, f, 2 if th else 1, "nl"))
    docs = opt_docs()
    for pi in range(len(OPT_PRESETS)):
        for i in range(0, len(docs), 200):
            sh.append(("opts", pi, i, min(len(docs), i + 200)))
        for di in range(len(FENCE_DOCS)):
            sh.append(("live", pi, di))
    return sh


def run_shard(sh, acc):
    if sh[0] == "live":
        _, pi, di = sh
        src = FENCE_DOCS[di]
        for n, (a, b) in enumerate(live_pairs()):
            route = LIVE_ROUTES[n % 3]
            acc.case()
            r = live_case(pi, a, b, route, src, acc)
            if r:
                acc.violation("live", r.split(" (")[0], {"preset": pi, "src": src, "ca": a, "cb": b, "route": route}, r)
        acc.sample("live", {"preset": pi, "src": src, "ca": 0, "cb": 12, "route": "setitem"}, 1)
        return
    if sh[0] == "ctx":
        _, ci, f, L, which = sh
        c = CTX_CFGS[ci]
        md = C.build(c)
        atoms = ATOMS if which == "base" else ATOMS_NL
        for k in range(0, L + 1):
            for combo in itertools.product(atoms, repeat=k):
                t = f + "".join(combo)
                acc.case()
                r = sub_ctx(md, t, acc)
                if r:
                    acc.violation("ctx", r.split(" in context")[0] if "context" not in r else "children differ in context " + r.split("context ")[1].split(" ")[0],
                                  {"cfg": c, "t": t}, r)
        acc.sample("ctx", {"cfg": c, "t": f + "*a*"}, 1)
    else:
        _, pi, lo, hi = sh
        for src in opt_docs()[lo:hi]:
            acc.case(len(COMBOS))
            r = sub_opts(pi, src, acc)
            if r:
                acc.violation("opts", r[0].split(" under")[0], {"preset": pi, "src": src, "combo": list(COMBOS[r[1]])}, r[0])
        acc.sample("opts", {"preset": OPT_PRESETS[pi], "src": FENCE_DOCS[1], "combo": list(COMBOS[17])}, 1)


def check_case(case, acc):
    acc.case()
    if case["sub"] == "ctx":
        md = C.build(case["cfg"], fresh=True)
        r = sub_ctx(md, case["t"], acc)
        if r:
            acc.violation("ctx", r.split(" in context")[0] if "context" not in r else "children differ in context " + r.split("context ")[1].split(" ")[0],
                          {"cfg": case["cfg"], "t": case["t"]}, r)
    elif case["sub"] == "live":
        r = live_case(case["preset"], case["ca"], case["cb"], case["route"], case["src"], acc)
        if r:
            acc.violation("live", r.split(" (")[0], {k: case[k] for k in ("preset", "src", "ca", "cb", "route")}, r)
    else:
        r = sub_opts(case["preset"], case["src"], acc)
        if r:
            acc.violation("opts", r[0].split(" under")[0], {"preset": case["preset"], "src": case["src"], "combo": list(COMBOS[r[1]])}, r[0])
