#!/bin/sh
# tools/mut.sh <patch-file> <ID> [tier] [--tests]
# Run one check against a scratch copy of /repo with a patch applied (never touches /repo or /verif/evidence).
patch=$(realpath "$1"); id=$2; tier=${3:-quick}
d=$(mktemp -d /tmp/mut.XXXXXX)
cp -r /repo/markdown_it /repo/tests /repo/pyproject.toml "$d"/ 2>/dev/null
find "$d" -name __pycache__ -prune -exec rm -rf {} +
(cd "$d" && patch -s -p1 < "$patch") || { echo "patch failed"; rm -rf "$d"; exit 3; }
if [ "$4" = "--tests" ]; then
  (cd "$d" && PYTHONPATH="$d" /venv/bin/python -m pytest -q -p no:cacheprovider -x --deselect tests/test_linkify.py 2>&1 | tail -1)
fi
cd /verif && VERIF_REPO="$d" VERIF_OUT="$d/out" ./check "$id" --tier "$tier" 2>&1 | tail -${MUT_TAIL:-6}
rc=$?
rm -rf "$d"
exit $rc
