"""C05 - emitted link/image URLs are normalised and never carry a dangerous scheme; rejected constructs stay literal."""
from __future__ import annotations

import itertools
import re

from .. import configs as C
from .. import spaces as S
from ..core import CRASH

ID = "C05"
LEVEL = "exploration"
RULE = ("every spelling of each dangerous scheme word with <=2 (thorough 3) characters re-spelled (upper case, "
        "decimal/hex/named reference, backslash, percent escape) and <=1 ignorable character inserted (TAB, LF, their "
        "references, soft hyphen, NUL) x prefixes x 10 producer syntaxes x presets (html on/off, stub linkifier); "
        "plus every combination of URL parts (7 schemes x 2 slashes x 6 userinfos x 9 hosts incl. IPv6 literals x 6 paths x "
        "3 queries x 3 fragments, metacharacters in every part) and all strings of <=3 URL atoms through every producer and through normalizeLink/validateLink directly. "
        "Oracle: every href/src on tokens and in HTML is URL-safe ASCII and, read as a browser does, has no "
        "javascript:/vbscript:/file:/data: scheme (except data:image/gif|png|jpeg|webp;); when nothing is emitted "
        "the HTML equals the HTML with all link producers switched off (literal text, nothing dropped). "
        "Non-trivial = a link/image was emitted or a destination was rejected; distinct = distinct emitted URLs "
        "plus distinct rejected sources (hashed).")
ASSUMPTIONS = ["stub linkifier stands in for linkify-it-py",
               "browser view of a URL: strip leading/trailing C0 controls and spaces, delete TAB/LF/CR, lower-case"]

SAFE = re.compile(r"^(?:[A-Za-z0-9;/?:@&=+$,\-_.!~*'()#]|%[0-9A-Fa-f]{2})*$")
BAD = re.compile(r"^(javascript|vbscript|file|data):")
GOOD = re.compile(r"^data:image/(gif|png|jpeg|webp);")
C0 = "".join(map(chr, range(33)))
HREF = re.compile(r'(?:href|src)="([^"]*)"')

WORDS = ["javascript:", "vbscript:", "file:", "data:", "data:text/html,", "data:image/svg+xml;"]
GOODWORDS = ["data:image/png;", "data:image/gif;", "data:image/jpeg;", "data:image/webp;"]
INSERT = ["\t", "\n", "&#9;", "&#10;", "&Tab;", "&NewLine;", "\xad", "\x00", " "]
PREFIX = ["", " ", "\t", "&#1;", "&#x20;", "%20", "\x01", "\xa0", "&nbsp;", "\n", "&#10;", "\x1f", "\x85", " "]
PRODUCERS = ["[x]({U})", "[x](<{U}>)", "[x][r]\n\n[r]: {U}\n", "[x][r]\n\n[r]: <{U}>\n", "<{U}>", "![x]({U})",
             "![x][r]\n\n[r]: {U}\n", "{U}", "[x]({U} 't')", "[![y]({U})]({U})"]
URL_ATOMS = ["a", "A", "/", ":", "//", "http", "javascript", "JaVa", "data:image/png;", "%", "%2", "%41", "%zz", "é",
             " ", "[", "]", "(", ")", "\\", "&amp;", "&#58;", "&#x3a;", "&Tab;", "&colon;", "\xa0", "\x01", "#", "?",
             "@", "xn--", "。", "​", "{", "|", "^", "`", "'", '"', "<", ">", "*", "_", "\U0001F600", "www.", ".com"]


# structured URLs: every combination of parts, each part from a small set that includes metacharacters
U_SCHEME = ["", "http:", "https:", "mailto:", "ftp:", "x-y.z+1:", "HTTP:"]
U_SLASH = ["", "//"]
U_USER = ["", "u@", "u:p@", "u\"<x>@", "ü ñ@", "a`b\\c@"]
U_HOST = ["a.b", "[::1]", "[2001:db8::1]", "xn--a", "é.com", "a b", "", "A.B:80", "a.b:x"]
U_PATH = ["", "/", "/a b", "/<>\"`{}|\\^", "/%zz%41", "/é/ü"]
U_QUERY = ["", "?q=<&>\"", "?a=b&c=[d]"]
U_FRAG = ["", "#f", "#\"<`"]


def url_parts():
    for sc in U_SCHEME:
        for sl in U_SLASH:
            for us in U_USER:
                for ho in U_HOST:
                    for pa in U_PATH:
                        for qu in U_QUERY:
                            for fr in U_FRAG:
                                yield sc + sl + us + ho + pa + qu + fr


TAILS = ["\"onerror=\"x", "<b>", "a b", "`{}|^\\", "é€", "%zz", "x\ty", "'", "&amp;&lt;", "a\\\"b"]


def respell_options(ch):
    out = []
    if ch.upper() != ch:
        out.append(ch.upper())
    out.append(f"&#{ord(ch)};")
    out.append(f"&#x{ord(ch):x};")
    out.append(f"%{ord(ch):02X}")
    out.append("\\" + ch)
    out.append(f"&amp;#{ord(ch)};")  # a reference to a reference (one decoding must not be undone later)
    out.append(f"&#38;#x{ord(ch):x};")
    if ch == ":":
        out.append("&colon;")
    if ch == "/":
        out.append("&sol;")
    if ch == "+":
        out.append("&plus;")
    if ch == ";":
        out.append("&semi;")
    if ch == ",":
        out.append("&comma;")
    return out


def spellings(word, nre, nins, ins_max_respelled=None):
    """all spellings of `word` with <= nre characters re-spelled and <= nins inserted ignorable characters"""
    n = len(word)
    for k in range(0, nre + 1):
        for pos in itertools.combinations(range(n), k):
            opts = [respell_options(word[p]) for p in pos]
            for choice in itertools.product(*opts):
                chars = list(word)
                for p, c in zip(pos, choice):
                    chars[p] = c
                yield "".join(chars)
                if nins and k <= (max(0, nre - 1) if ins_max_respelled is None else ins_max_respelled):
                    for ip in range(0, n + 1):
                        for ins in INSERT:
                            yield "".join(chars[:ip]) + ins + "".join(chars[ip:])


CFGS = [C.cfg("commonmark"), C.cfg("js-default", {"linkify": True}, linkify="stub"),
        C.cfg("commonmark", {"html": False, "linkify": True}, enable=["linkify"], linkify="stub"),
        C.cfg("js-default", {"html": True})]
PRODUCER_RULES = ["link", "image", "autolink", "linkify", "reference"]
# the python-only options that touch reference definitions: explored on the producers that go through a definition
CFG_PYOPTS = C.cfg("commonmark", {"inline_definitions": True, "store_labels": True})
REF_PRODUCERS = [p for p in PRODUCERS if "[r]:" in p] + ["![x][r]\n\n[r]: <{U}>\n"]


def bounds(tier):
    th = tier == "thorough"
    return {"words": WORDS + GOODWORDS,
            "respelled": "<=3 for words of <=5 chars, else <=2" if th else "<=2 for words of <=11 chars, else <=1",
            "inserted": "<=1, combined with <=1 re-spelling" if th else "<=1, combined with 0 re-spellings",
            "insert_alphabet": INSERT, "prefixes": PREFIX if th else [PREFIX[i] for i in QUICK_PREFIX],
            "producers": PRODUCERS, "configs": CFGS if th else CFGS[:2],
            "reference_producers_also_under": CFG_PYOPTS, "url_atoms": URL_ATOMS, "L_url": 3,
            "url_parts": {"scheme": U_SCHEME, "slashes": U_SLASH, "userinfo": U_USER, "host": U_HOST, "path": U_PATH,
                          "query": U_QUERY, "fragment": U_FRAG}}


QUICK_PREFIX = [0, 1, 2, 3, 6]


def shards(tier):
    th = tier == "thorough"
    sh = []
    for w in WORDS + GOODWORDS:
        if th:
            for pi in range(len(PREFIX)):
                sh.append(("scheme", w, 3 if len(w) <= 5 else 2, pi, None, 4))
        else:
            for pi in QUICK_PREFIX:
                sh.append(("scheme", w, 2 if len(w) <= 11 else 1, pi, 0, 2))
    for f in URL_ATOMS:
        sh.append(("atoms", f, 3, 4 if th else 2))
    for si in range(len(U_SCHEME)):
        for ui in range(len(U_USER)):
            sh.append(("parts", si, ui, 4 if th else 2))
    return sh


def urls_of(tokens):
    for t in tokens:
        if t.type == "link_open":
            yield t.attrs.get("href")
        elif t.type == "image":
            yield t.attrs.get("src")
        if t.children:
            yield from urls_of(t.children)


def unesc(s):
    """the attribute value as a browser reads it: every character reference decoded"""
    import html as _html

    return _html.unescape(s)


def judge(u):
    if not isinstance(u, str):
        return f"non-string URL {u!r}"
    if not SAFE.match(u):
        return "URL is not percent-encoded URL-safe ASCII"
    v = re.sub(r"[\t\n\r]", "", u.strip(C0)).lower()
    if BAD.match(v) and not GOOD.match(v):
        return f"dangerous scheme {v.split(':')[0]}:"
    return None


_off_cache = {}


def producers_off(c):
    k = C.key(c)
    if k not in _off_cache:
        md = C.build(c, fresh=True)
        md.disable(PRODUCER_RULES, True)
        _off_cache[k] = md
    return _off_cache[k]


def _one(md, c, src, acc):
    env = {}
    toks = acc.call(md.parse, src, env)
    if toks is CRASH:
        return None
    html_on = md.options["html"]
    emitted = list(urls_of(toks))
    for u in emitted:
        acc.sig(("u", u))
        r = judge(u)
        if r:
            return r + " on token"
    out = acc.call(md.renderer.render, toks, md.options, env)
    if out is CRASH:
        return None
    if not html_on:
        for m in HREF.finditer(out):
            # the value as written must be URL-safe (with & escaped), and harmless once the browser has decoded it
            raw = m.group(1).replace("&amp;", "&")
            if not SAFE.match(raw):
                return "URL is not percent-encoded URL-safe ASCII in HTML"
            r = judge(unesc(m.group(1)))
            if r and "URL-safe" not in r:
                return r + " in HTML"
    if not emitted:
        ref = acc.call(producers_off(c).render, src)
        if ref is not CRASH and ref != out:
            return "rejected destination: output differs from the literal-text rendering (something dropped or altered)"
        acc.sig(("rej", src))
    return None


def _direct(md, u, acc):
    """the public normalizeLink / validateLink pair on the raw string"""
    n = acc.call(md.normalizeLink, u)
    if n is CRASH:
        return None
    if not SAFE.match(n):
        return "normalizeLink output is not URL-safe ASCII"
    ok = acc.call(md.validateLink, n)
    if ok is CRASH:
        return None
    if ok:
        r = judge(n)
        if r:
            return "validateLink accepts: " + r
    return None


def _cls(r):
    return re.sub(r"scheme \S+", "scheme", r)[:70]


def check_case(case, acc):
    c = case["cfg"]
    md = C.build(c, fresh=True)
    acc.case()
    if case.get("direct"):
        r = _direct(md, case["src"], acc)
    else:
        r = _one(md, c, case["src"], acc)
    if r:
        acc.violation(case["sub"], _cls(r), {k: case[k] for k in ("cfg", "src", "direct") if k in case}, r)


def _iter(sh):
    if sh[0] == "scheme":
        _, w, nre, pi, insmax, _ncfg = sh
        p = PREFIX[pi]
        for sp in spellings(w, nre, 1, insmax):
            u = p + sp + "alert(1)"
            yield u
        # the unre-spelled word followed by every metacharacter-laden tail (what follows an allowed prefix must
        # still be normalised)
        for tail in TAILS:
            yield p + w + tail
        if w in GOODWORDS and pi == 0:
            # long payloads (fast paths keyed on length) with an unsafe character at the end
            for n in (64, 4096, 20000):
                for tail in TAILS[:4]:
                    yield w + "base64," + "A" * n + tail
    elif sh[0] == "parts":
        _, si, ui, _ncfg = sh
        sc, us = U_SCHEME[si], U_USER[ui]
        for sl in U_SLASH:
            for ho in U_HOST:
                for pa in U_PATH:
                    for qu in U_QUERY:
                        for fr in U_FRAG:
                            yield sc + sl + us + ho + pa + qu + fr
    else:
        _, f, L, _ncfg = sh
        yield from S.strings_with_first(f, URL_ATOMS, L)


def run_shard(sh, acc):
    mds = [(c, C.build(c)) for c in CFGS[:sh[-1]]]
    pyo = C.build(CFG_PYOPTS)
    first = True
    for u in _iter(sh):
        acc.case()
        r = _direct(mds[0][1], u, acc)
        if r:
            acc.violation(sh[0], _cls(r), {"cfg": CFGS[0], "src": u, "direct": True}, r)
        for p in PRODUCERS:
            if p == "{U}" and len(u) > 1000:
                continue  # (the stub linkifier's own regex is quadratic on long scheme-less runs)
            src = p.replace("{U}", u)
            for c, md in mds:
                acc.case()
                if first:
                    acc.sample(sh[0], {"cfg": c, "src": src})
                    first = False
                r = _one(md, c, src, acc)
                if r:
                    acc.violation(sh[0], _cls(r), {"cfg": c, "src": src}, r)
        for p in REF_PRODUCERS:
            src = p.replace("{U}", u)
            acc.case()
            r = _one(pyo, CFG_PYOPTS, src, acc)
            if r:
                acc.violation(sh[0], _cls(r), {"cfg": CFG_PYOPTS, "src": src}, r)
