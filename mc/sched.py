"""Controlled thread scheduler on sys.monitoring (DESIGN.md C13).

Real threading.Threads, one per call, serialised by a baton (one semaphore per thread).  A *step* is one
monitoring event of the running thread inside the package: LINE events everywhere, plus INSTRUCTION events inside
the files listed in `opcode_files` (granularity "mixed"), or INSTRUCTION everywhere ("op"), or LINE only ("line").
A schedule is a list of segments [thread, nsteps]; nsteps None = until the thread finishes.  After the schedule is
exhausted the remaining threads run to completion in index order.  Executions always run to completion; a thread
exceeding the horizon is aborted and reported as a hang."""
from __future__ import annotations

import os
import sys
import threading

mon = sys.monitoring
TOOL = 3
_inited = False


class Abort(BaseException):
    pass


def _init():
    global _inited
    if not _inited:
        try:
            mon.use_tool_id(TOOL, "mc-sched")
        except ValueError:
            mon.free_tool_id(TOOL)
            mon.use_tool_id(TOOL, "mc-sched")
        _inited = True


def pkg_roots():
    import markdown_it
    import mdurl

    return (os.path.dirname(markdown_it.__file__) + os.sep, os.path.dirname(mdurl.__file__) + os.sep)


def _code_objects_of(module):
    import types

    out = []
    seen = set()

    def rec(code):
        if id(code) in seen:
            return
        seen.add(id(code))
        out.append(code)
        for c in code.co_consts:
            if isinstance(c, types.CodeType):
                rec(c)

    for v in vars(module).values():
        if isinstance(v, types.FunctionType) and v.__module__ == module.__name__:
            rec(v.__code__)
        elif isinstance(v, type) and v.__module__ == module.__name__:
            for w in vars(v).values():
                f = getattr(w, "__func__", w)
                if isinstance(f, types.FunctionType):
                    rec(f.__code__)
                elif isinstance(w, property):
                    for g in (w.fget, w.fset):
                        if g is not None:
                            rec(g.__code__)
    return out


class Sched:
    def __init__(self, gran="mixed", opcode_modules=("markdown_it.ruler",)):
        _init()
        self.gran = gran
        self.roots = pkg_roots()
        self.opcode_codes = []
        if gran == "mixed":
            import importlib

            for m in opcode_modules:
                self.opcode_codes += _code_objects_of(importlib.import_module(m))

    def run(self, fns, segments, horizon, observer=None):
        """fns: list of zero-arg callables (one thread each); returns (results, steps, trace)
        results[i] = ('ok', value) | ('exc', repr) | ('hang', None); observer(i, step) is called at every step."""
        n = len(fns)
        sems = [threading.Semaphore(0) for _ in range(n)]
        fin = threading.Semaphore(0)
        steps = [0] * n
        res = [None] * n
        done = [False] * n
        tid = {}
        segs = [list(s) for s in segments]
        state = {"seg": 0, "left": None, "cur": None}
        self.switches = []  # (thread, step, "file:function:line-or-offset") at every preemption
        roots = self.roots

        def next_thread():
            """advance to the next runnable segment; returns thread index or None"""
            while state["seg"] < len(segs):
                t, k = segs[state["seg"]]
                if not done[t] and (k is None or k > 0):
                    state["left"] = k
                    return t
                state["seg"] += 1
            for t in range(n):
                if not done[t]:
                    state["left"] = None
                    return t
            return None

        def body(i):
            tid[threading.get_ident()] = i
            sems[i].acquire()
            try:
                res[i] = ("ok", fns[i]())
            except Abort:
                res[i] = ("hang", None)
            except BaseException as e:  # noqa
                res[i] = ("exc", f"{type(e).__name__}: {e}"[:200])
            done[i] = True
            if state["cur"] == i and state["seg"] < len(segs) and segs[state["seg"]][0] == i:
                state["seg"] += 1
            j = next_thread()
            if j is None:
                fin.release()
            else:
                state["cur"] = j
                sems[j].release()

        def on_event(code, arg):
            if not code.co_filename.startswith(roots):
                return mon.DISABLE
            i = tid.get(threading.get_ident())
            if i is None:
                return None
            steps[i] += 1
            if steps[i] > horizon:
                raise Abort()
            if observer is not None:
                observer(i, steps[i], code, arg)
            left = state["left"]
            if left is not None:
                left -= 1
                state["left"] = left
                if left <= 0:
                    # segment exhausted: this thread has executed its budget *before* the current step
                    state["seg"] += 1
                    j = next_thread()
                    if j is not None and j != i:
                        self.switches.append((i, steps[i], f"{os.sep.join(code.co_filename.split(os.sep)[-2:])}:{code.co_name}:{arg}"))
                        state["cur"] = j
                        sems[j].release()
                        sems[i].acquire()
                    # if j == i we just continue
            return None

        ths = [threading.Thread(target=body, args=(i,), daemon=True) for i in range(n)]
        if self.gran == "op":
            ev = mon.events.INSTRUCTION
            mon.register_callback(TOOL, mon.events.INSTRUCTION, on_event)
            mon.set_events(TOOL, ev)
        else:
            mon.register_callback(TOOL, mon.events.LINE, on_event)
            mon.set_events(TOOL, mon.events.LINE)
            if self.gran == "mixed":
                mon.register_callback(TOOL, mon.events.INSTRUCTION, on_event)
                for c in self.opcode_codes:
                    mon.set_local_events(TOOL, c, mon.events.INSTRUCTION)
        try:
            for t in ths:
                t.start()
            first = next_thread()
            state["cur"] = first
            sems[first].release()
            fin.acquire()
        finally:
            mon.set_events(TOOL, 0)
            if self.gran == "mixed":
                for c in self.opcode_codes:
                    mon.set_local_events(TOOL, c, 0)
        for t in ths:
            t.join()
        return res, steps
