#!/bin/sh
# tools/seed_batch.sh <ID> <checks>   evaluate /tmp/seeds/<ID>/{A,B} and print one summary line each
id=$1; checks=$2
for v in A B; do
  [ -d ${SEEDS:-/tmp/seeds}/$id/$v ] || continue
  python3 tools/seed_eval.py ${SEEDS:-/tmp/seeds}/$id/$v --checks "$checks" > ${SEEDS:-/tmp/seeds}/$id/$v/eval.json 2>${SEEDS:-/tmp/seeds}/$id/$v/eval.err
  python3 - ${SEEDS:-/tmp/seeds}/$id/$v/eval.json <<'PY'
import json,sys
t=open(sys.argv[1]).read()
try:
    d=json.loads(t[t.index('{'):])
    print(d['seed'],'confirmed',d.get('confirmed'),d.get('suite_with_patch'),'demo',d.get('demo_without_patch_rc'),d.get('demo_with_patch_rc'),{k:(v['rc'],v['classes'][:2]) for k,v in d.get('checks',{}).items()}, d.get('error',''))
except Exception as e:
    print(sys.argv[1],'EVAL ERROR',e,t[:300])
PY
done
